"""Shared orchestration helpers for /verif/bin/check: running TLC, extracting emitted behaviours,
building the harness, writing evidence, known-findings handling."""
import json, os, re, shutil, subprocess, sys, time, hashlib, tempfile

VERIF = os.path.dirname(os.path.dirname(os.path.abspath(__file__)))
SPEC = os.path.join(VERIF, "spec")
HARNESS = os.path.join(VERIF, "harness")
VH = os.path.join(HARNESS, "target", "release", "vh")
EVID = os.path.join(VERIF, "evidence")
REPLAYS = os.path.join(VERIF, "replays")
KNOWN = os.path.join(VERIF, "known_findings.json")
TLA_JAR = "/opt/veriftools/tla/tla2tools.jar"


class ToolError(Exception):
    pass


def scratch_dir(tag):
    base = "/dev/shm" if os.path.isdir("/dev/shm") else tempfile.gettempdir()
    d = tempfile.mkdtemp(prefix=f"verif-{tag}-", dir=base)
    return d


def build_harness():
    """(Re)build the harness from /repo's current working tree with the hooks enabled."""
    lock = os.path.join(HARNESS, "Cargo.lock")
    if not os.path.exists(lock):
        shutil.copy("/repo/Cargo.lock", lock)
    env = dict(os.environ, CARGO_NET_OFFLINE="true")
    t0 = time.time()
    p = subprocess.run(["cargo", "build", "--release", "--offline"], cwd=HARNESS, env=env,
                       stdout=subprocess.PIPE, stderr=subprocess.STDOUT, text=True)
    if p.returncode != 0:
        sys.stderr.write(p.stdout[-4000:])
        raise ToolError("harness build failed")
    return time.time() - t0


def _unescape_tla(s):
    out = []
    i = 0
    while i < len(s):
        c = s[i]
        if c == "\\" and i + 1 < len(s):
            n = s[i + 1]
            out.append({"n": "\n", "t": "\t"}.get(n, n))
            i += 2
        else:
            out.append(c)
            i += 1
    return "".join(out)


TLC_STATS = re.compile(r"(\d+) states generated, (\d+) distinct states found")


def run_tlc(module, cfg_text, workdir, workers=8, timeout=900, simulate=None, extra_env=None, seed=None,
            emit_prefixes=("REPLAY",), heap="8g", coverage=False, extra_args=()):
    """Run TLC on spec/<module>.tla with the given cfg text. Returns dict with states, transitions(generated),
    emitted {prefix: [json values]}, violated (invariant name or None), raw output tail."""
    os.makedirs(workdir, exist_ok=True)
    # copy specs so TLC's generated files never land in /verif/spec
    for f in os.listdir(SPEC):
        if f.endswith(".tla"):
            shutil.copy(os.path.join(SPEC, f), workdir)
    cfg = os.path.join(workdir, module + "_run.cfg")
    with open(cfg, "w") as fh:
        fh.write(cfg_text)
    cmd = ["java", "-XX:+UseParallelGC", f"-Xmx{heap}", "-cp", TLA_JAR + ":/opt/veriftools/tla/CommunityModules-deps.jar"
           if False else TLA_JAR]
    cmd = ["tlc", "-workers", str(workers), "-metadir", os.path.join(workdir, "meta"), "-cleanup",
           "-noGenerateSpecTE", "-config", cfg]
    if coverage:
        cmd += ["-coverage", "1"]
    if seed is not None:
        cmd += ["-seed", str(seed)]
    if simulate:
        cmd += ["-simulate", simulate]
    cmd += list(extra_args)
    cmd += [os.path.join(workdir, module + ".tla")]
    env = dict(os.environ)
    if extra_env:
        env.update(extra_env)
    t0 = time.time()
    emitted = {p: [] for p in emit_prefixes}
    out_tail = []
    states = distinct = 0
    violated = None
    err_trace = []
    proc = subprocess.Popen(["timeout", str(timeout)] + cmd, cwd=workdir, env=env, stdout=subprocess.PIPE,
                            stderr=subprocess.STDOUT, text=True, bufsize=1 << 20)
    in_err = False
    for line in proc.stdout:
        line = line.rstrip("\n")
        hit = False
        for p in emit_prefixes:
            pre = '<<"%s", "' % p
            if line.startswith(pre) and line.endswith('">>'):
                emitted[p].append(_unescape_tla(line[len(pre):-3]))
                hit = True
                break
        if hit:
            continue
        m = TLC_STATS.search(line)
        if m:
            states, distinct = int(m.group(1)), int(m.group(2))
        if line.startswith("Error: Invariant") or line.startswith("Error: Action property") or "is violated" in line:
            violated = violated or line
            in_err = True
        elif line.startswith("Error:"):
            violated = violated or line
            in_err = True
        if in_err and len(err_trace) < 20000:
            err_trace.append(line)
        out_tail.append(line)
        if len(out_tail) > 60:
            out_tail.pop(0)
    rc = proc.wait()
    wall = time.time() - t0
    shutil.rmtree(os.path.join(workdir, "meta"), ignore_errors=True)
    if rc == 124:
        raise ToolError(f"TLC timed out after {timeout}s on {module}")
    return {"generated": states, "distinct": distinct, "emitted": emitted, "violated": violated,
            "err_trace": err_trace, "tail": out_tail, "rc": rc, "wall": wall, "cmd": " ".join(cmd)}


def maximal_paths(json_strings):
    """Emitted histories are BFS-tree paths (one per state); keep only those that are not a proper prefix
    of another. Returns list of parsed step lists."""
    paths = [json.loads(s) for s in json_strings]
    keyed = {}
    for p in paths:
        k = tuple((st["op"], tuple(st["args"])) for st in p)
        keyed[k] = p
    prefixes = set()
    for k in keyed:
        for i in range(1, len(k)):
            prefixes.add(k[:i])
    return [p for k, p in keyed.items() if k not in prefixes]


def write_ndjson(path, items):
    with open(path, "w") as fh:
        for it in items:
            fh.write(json.dumps(it, separators=(",", ":")) + "\n")


def run_vh(args, timeout=1800):
    p = subprocess.run(["timeout", str(timeout), VH] + args, stdout=subprocess.PIPE, stderr=subprocess.PIPE, text=True)
    if p.returncode not in (0, 1):
        raise ToolError(f"harness {' '.join(args[:6])} failed rc={p.returncode}: {p.stderr[-2000:]}")
    try:
        last = [l for l in p.stdout.splitlines() if l.strip()][-1]
        return json.loads(last)
    except Exception as e:
        raise ToolError(f"harness output unparsable: {e}: {p.stdout[-500:]} {p.stderr[-500:]}")


def load_known():
    if not os.path.exists(KNOWN):
        return []
    return json.load(open(KNOWN))


def known_devs(prop):
    """deviation ids that are listed as known (not fixed) findings for this property"""
    return {k["id"] for k in load_known() if k.get("status") == "known" and prop in k.get("properties", [k.get("property")])}


def all_known_devs():
    return {k["id"] for k in load_known() if k.get("status") == "known"}


def write_replay(prop, payload):
    os.makedirs(REPLAYS, exist_ok=True)
    h = hashlib.sha1(json.dumps(payload, sort_keys=True).encode()).hexdigest()[:12]
    path = os.path.join(REPLAYS, f"{prop}-{h}.json")
    with open(path, "w") as fh:
        json.dump(payload, fh, indent=1)
    return path


def write_evidence(prop, tier, seed, level, coverage, assumptions, wall, violations):
    os.makedirs(EVID, exist_ok=True)
    ev = {"property_id": prop, "tier": tier, "seed": seed, "level": level, "coverage": coverage,
          "assumptions": assumptions, "wall_s": round(wall, 2), "violations": violations}
    with open(os.path.join(EVID, f"{prop}.json"), "w") as fh:
        json.dump(ev, fh, indent=1)
    return ev


def trace_ops(err_trace):
    """Extract the operation list of the last state of a TLC error trace (from the hist variable)."""
    txt = "\n".join(err_trace)
    i = txt.rfind("/\\ hist = ")
    if i < 0:
        return []
    blk = txt[i:]
    ops = re.findall(r'op \|-> "([a-z_]+)"', blk)
    args = re.findall(r'args \|-> <<([^>]*)>>', blk)
    res = re.findall(r'res \|-> "([a-z]+)"', blk)
    return [f"{o}({a.strip()})->{r}" for o, a, r in zip(ops, args, res)]
