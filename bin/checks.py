"""Per-property checks. Each returns dict(level, coverage, assumptions, violations=[replay payloads], known=[lines])."""
import os, json, shutil, time, concurrent.futures as cf
import vlib
from vlib import ToolError

REGISTRY = {}


def register(*ids):
    def deco(fn):
        for i in ids:
            REGISTRY[i] = fn
        return fn
    return deco


# ----------------------------------------------------------------------------------------------
# vecdb stored vectors: spec/Vec.tla  (C03 C04 C07 C13v C16 C20m)
# ----------------------------------------------------------------------------------------------
VEC_DESIGN_INVS = ["TypeOK", "ViewEq", "MustOk", "RetentionBound", "ChangeDirBound", "PagesOk", "RWInBounds"]


def vec_cfg(kind, K, PP, MaxLen, MaxStamp, Depth, ops, dev, invs, emit, histk=0):
    lines = ["SPECIFICATION Spec", "CONSTANTS",
             f'  Kind = "{kind}"', f"  K = {K}", f"  PP = {PP}", f"  MaxLen = {MaxLen}", f"  MaxStamp = {MaxStamp}",
             f"  Depth = {Depth}", f"  HistK = {histk}",
             "  Dev = {" + ", ".join('"%s"' % d for d in sorted(dev)) + "}",
             "  Ops = {" + ", ".join('"%s"' % o for o in ops) + "}",
             "VIEW HView", "CONSTRAINT DepthOK", "CHECK_DEADLOCK FALSE"]
    for i in invs:
        lines.append(f"INVARIANT {i}")
    if emit:
        lines.append("INVARIANT Emit")
    return "\n".join(lines) + "\n"


RAW_EDIT = ["push", "truncate", "update", "delete", "fill"]
CMP_EDIT = ["push", "truncate"]


def vec_run(prop, tier, seed, plan, interesting, assumptions, extra_cov=None):
    """plan: list of dict(kind,K,PP,MaxLen,MaxStamp,Depth,ops,replays=[(fmt,ty,block)])"""
    known_ids = vlib.all_known_devs()
    stale_readers = [0]
    vec_devs = sorted(known_ids & {"D2", "D3", "D4", "D6", "D13", "D38"})
    tot_states = tot_trans = 0
    behaviours = steps = nontrivial = 0
    violations, known_seen, samples, runs = [], {}, [], []
    cut = 0
    pages_checked = pages_equal = 0
    read_calls = read_states = accesses = 0
    for item in plan:
        wd = vlib.scratch_dir("vec")
        try:
            base = (item["kind"], item["K"], item["PP"], item["MaxLen"], item["MaxStamp"], item["Depth"], item["ops"])
            with cf.ThreadPoolExecutor(2) as ex:
                fd = ex.submit(vlib.run_tlc, "MCVec", vec_cfg(*base, [], VEC_DESIGN_INVS, False),
                               os.path.join(wd, "design"), 6, item.get("timeout", 900))
                fa = ex.submit(vlib.run_tlc, "MCVec", vec_cfg(*base, vec_devs, ["TypeOK"], True, item.get("histk", 4)),
                               os.path.join(wd, "asis"), 6, item.get("timeout", 900))
                d, a = fd.result(), fa.result()
            if d["violated"]:
                raise ToolError("the intended-design model (Dev={}) violates its own invariant: %s ; ops=%s"
                                % (d["violated"], vlib.trace_ops(d["err_trace"])))
            if a["violated"]:
                raise ToolError("as-is model run failed: %s %s" % (a["violated"], a["err_trace"][:5]))
            if a["distinct"] == 0 or d["distinct"] == 0:
                raise ToolError("TLC explored nothing: " + "\n".join(a["tail"][-10:]))
            tot_states += d["distinct"] + a["distinct"]
            tot_trans += d["generated"] + a["generated"]
            paths = vlib.maximal_paths(a["emitted"]["REPLAY"])
            nd = os.path.join(wd, "paths.ndjson")
            vlib.write_ndjson(nd, paths)
            if not samples and paths:
                longest = max(paths, key=len)
                samples.append({"kind": item["kind"], "K": item["K"],
                                "ops": ["%s(%s)" % (s["op"], ",".join(map(str, s["args"]))) for s in longest],
                                "final_expected": longest[-1]["exp"]})
            nshards = max(1, min(8, len(paths) // 1500))
            shard_files = []
            for si in range(nshards):
                sf = os.path.join(wd, f"paths.{si}.ndjson")
                vlib.write_ndjson(sf, paths[si::nshards])
                shard_files.append(sf)
            with cf.ThreadPoolExecutor(14) as ex:
                futs = {}
                for rp in item["replays"]:
                    f, ty, b = rp[:3]
                    extra = ["--special"] if len(rp) > 3 and rp[3] == "special" else (["--reads"] if len(rp) > 3 and rp[3] == "reads" else [])
                    for si, sf in enumerate(shard_files):
                        futs[ex.submit(vlib.run_vh, ["vecreplay", "--in", sf, "--format", f, "--type", ty, "--k", str(item["K"]),
                                                    "--block", str(b)] + extra)] = (f, ty, b, si)
                for fu in cf.as_completed(futs):
                    f, ty, b, si = futs[fu]
                    r = fu.result()
                    behaviours += r["behaviours"]
                    steps += r["steps"]
                    nontrivial += r["distinct_nontrivial"]
                    cut += r["cut_permitted"]
                    stale_readers[0] += r.get("stale_reader_registrations", 0)
                    pages_checked += r["pages_checked"]
                    pages_equal += r["pages_equal_model"]
                    read_calls += r.get("read_calls", 0); read_states += r.get("read_states", 0); accesses += r.get("accesses_checked", 0)
                    for k in r["known"]:
                        e = known_seen.setdefault(k["dev"], {"count": 0, "history": k["history"], "format": f})
                        e["count"] += k["count"]
                        if len(k["history"]) < len(e["history"]):
                            e["history"] = k["history"]
                    for v in r["violations"]:
                        v.update({"property": prop, "tier": tier, "seed": seed, "kind": "behaviour", "spec": "Vec",
                                  "format": f, "type": ty, "block": b, "K": item["K"],
                                  "steps_full": paths[si::nshards][v["behaviour"]][: v["step"] + 1] if v.get("behaviour") is not None else None})
                        violations.append(v)
            runs.append({"kind": item["kind"], "K": item["K"], "PP": item["PP"], "MaxLen": item["MaxLen"], "Depth": item["Depth"],
                         "ops": item["ops"], "HistK": item.get("histk", 4), "design_states": d["distinct"], "asis_states": a["distinct"],
                         "paths": len(paths), "replays": ["/".join(map(str, r)) for r in item["replays"]]})
        finally:
            shutil.rmtree(wd, ignore_errors=True)
    known_lines = []
    for dev, e in sorted(known_seen.items()):
        if dev in known_ids:
            known_lines.append("%s %s" % (dev, " ".join(e["history"])))
        else:
            violations.append({"property": prop, "kind": "unlisted-deviation", "dev": dev, "history": e["history"]})
    cov = {"states": tot_states, "transitions": tot_trans, "traces_validated_against_impl": behaviours,
           "samples": samples, "evaluations": steps, "distinct_nontrivial": nontrivial,
           "rule": "behaviours = maximal BFS-tree paths emitted by TLC for every distinct state of the bounded model, each "
                   "replayed on the real vector with the observable projection compared after every step; distinct counts (format, behaviour) pairs; " + interesting,
           "exhaustive": True, "runs": runs, "deviations_taken": {k: v["count"] for k, v in known_seen.items()},
           "cut_after_permitted_divergence": cut, "stale_reader_registrations_dropped_between_behaviours": stale_readers[0], "page_index_checks": pages_checked, "page_index_equal_to_model": pages_equal,
           "read_calls": read_calls, "states_read": read_states, "accesses_checked": accesses,
           "checker_cmd": "tlc -config <generated> MCVec.tla ; vh vecreplay"}
    if extra_cov:
        cov.update(extra_cov)
    return {"level": "model_checking", "coverage": cov, "assumptions": assumptions, "violations": violations, "known": known_lines}


VEC_ASSUME = ["TLC exhaustiveness is within the stated constants (MaxLen, Depth, K, PP) only",
              "model elements are mapped to blocks of real elements (scale factor 'block'); values are position-dependent patterns",
              "the reference model is the ghost state of spec/Vec.tla; the as-is model is accepted only where known_findings.json lists the deviation"]


def q(tier, quick, thorough):
    return quick if tier == "quick" else thorough


@register("C03")
def c03(prop, tier, seed):
    ops_raw = RAW_EDIT + ["write", "reimport", "reset"]
    ops_cmp = CMP_EDIT + ["write", "reimport", "reset"]
    plan = [
        # every history of the last 4 operations kept apart (latent state corruption needs the continuation)
        dict(kind="raw", K=0, PP=2, MaxLen=2, MaxStamp=1, Depth=q(tier, 6, 7), ops=ops_raw, histk=4,
             replays=[("bytes", "u32", 1), ("zerocopy", "u32", 1)]),
        # longer vectors, other element widths and block scales
        dict(kind="raw", K=0, PP=2, MaxLen=3, MaxStamp=1, Depth=q(tier, 6, 7), ops=ops_raw, histk=q(tier, 1, 2),
             replays=[("bytes", "u64", 3), ("zerocopy", "u64", 2)]
                     + q(tier, [], [("bytes", "u16", 1), ("bytes", "f64", 1025), ("bytes", "u32", 1), ("zerocopy", "u32", 1)])),
        dict(kind="cmp", K=0, PP=2, MaxLen=5, MaxStamp=1, Depth=q(tier, 7, 8), ops=ops_cmp, histk=q(tier, 4, 5),
             replays=[("pco", "u32", 1), ("lz4", "u32", 1), ("zstd", "u32", 1)]),
        dict(kind="cmp", K=0, PP=2, MaxLen=5, MaxStamp=1, Depth=q(tier, 7, 9), ops=ops_cmp, histk=q(tier, 1, 2),
             replays=[("pco", "u32", 2048), ("lz4", "u32", 2048), ("eager_pco", "u32", 1), ("eager_bytes", "u32", 1),
                      ("bytes", "u32", 1), ("zerocopy", "u32", 1)]
                     + q(tier, [], [("pco", "u64", 1024), ("lz4", "u64", 1023), ("zstd", "u64", 1025), ("pco", "f64", 1024),
                                    ("pco", "u16", 4096), ("zstd", "u32", 2049)])),
    ]
    res = vec_run(prop, tier, seed, plan,
                   "non-trivial = length >= 3 and at least one further operation after a re-import, reset or rollback",
                   VEC_ASSUME)
    tr = trace_vec(prop, tier, seed, [("bytes", "raw", 0), ("zerocopy", "raw", 0), ("bytes_be", "raw", 0), ("pco", "cmp", 0), ("lz4", "cmp", 0), ("zstd", "cmp", 0)])
    return add_trace_vec(res, tr)


@register("C07")
def c07(prop, tier, seed):
    ops_cmp = CMP_EDIT + ["write", "reimport", "reset"]
    exact = {"u8": 8192, "i8": 8192, "u16": 4096, "i16": 4096, "u32": 2048, "i32": 2048, "f32": 2048, "u64": 1024, "i64": 1024, "f64": 1024}
    sp = lambda f, t, d=0: (f, t, exact[t] + d, "special")
    plan = [
        # page-index well-formedness at the exact page scale and one element around it, every chunking of pushes / writes /
        # truncations (into the raw page, into a compressed page, on a boundary) / re-imports up to 3 model pages
        dict(kind="cmp", K=0, PP=2, MaxLen=5, MaxStamp=1, Depth=q(tier, 7, 8), ops=ops_cmp, histk=q(tier, 3, 4),
             replays=[("pco", "u32", 2048), ("lz4", "u32", 2048), ("zstd", "u32", 2048), ("pco", "u64", 1024), ("lz4", "u16", 4096)]
                     + q(tier, [], [("pco", "u32", 2047), ("lz4", "u64", 1025), ("zstd", "u64", 1024), ("pco", "u16", 4096)])),
        # lossless round trip: extreme integers and special floating-point bit patterns, compared bit for bit
        dict(kind="cmp", K=0, PP=2, MaxLen=5, MaxStamp=1, Depth=q(tier, 6, 7), ops=ops_cmp, histk=q(tier, 1, 2),
             replays=[sp("pco", "f64"), sp("pco", "f32"), sp("pco", "i64"), sp("lz4", "f64"), sp("zstd", "f64"), sp("lz4", "u8"),
                      sp("zstd", "f32", 1), sp("pco", "i16", -1)]
                     + q(tier, [], [sp("pco", "u64"), sp("pco", "i32"), sp("lz4", "i64"), sp("lz4", "u16"), sp("zstd", "u8"),
                                    sp("zstd", "i16"), sp("pco", "u16", 1), sp("pco", "f64", -1)])),
        # commits and rollbacks also rewrite pages
        dict(kind="cmp", K=2, PP=2, MaxLen=4, MaxStamp=3, Depth=q(tier, 6, 7), ops=CMP_EDIT + ["reimport", "commit", "rollback", "rollback_before"],
             histk=q(tier, 1, 2), replays=[("pco", "u32", 2048), ("zstd", "u64", 1024)]),
        # four model elements per page (a raw partial page of 2-3 elements: truncations strictly inside it, appends behind it, writes with nothing pushed),
        # at the exact scale and with one real element per model element (the whole vector is one raw partial page)
        dict(kind="cmp", K=0, PP=4, MaxLen=5, MaxStamp=1, Depth=q(tier, 7, 8), ops=["push", "truncate", "write", "reimport"], histk=q(tier, 2, 3),
             replays=[("pco", "u32", 1024), ("lz4", "u32", 1024), ("zstd", "u32", 1), ("pco", "u32", 1)] + q(tier, [], [("zstd", "u64", 512), ("lz4", "u64", 1)])),
    ]
    res = vec_run(prop, tier, seed, plan,
                   "non-trivial = length >= 3 (special-value runs) or a continuation after re-import/reset/rollback; the page index "
                   "(start/bytes/count/raw per entry, data-region length) is read from the real regions after every successful write",
                   VEC_ASSUME + ["bit-exact comparison uses a table of extreme integers / IEEE-754 special patterns (NaN payloads, +-0, "
                                 "subnormals, infinities) followed by pseudo-random bit patterns; it is a harness-side oracle (shadow list)"])
    tr = trace_vec(prop, tier, seed, [("pco", "cmp", 0), ("lz4", "cmp", 0), ("zstd", "cmp", 0), ("pco", "cmp", 2)])
    return add_trace_vec(res, tr)


def reads_plan(tier):
    rd = lambda f, t, b: (f, t, b, "reads")
    raw_ops = RAW_EDIT + ["write", "reimport", "reset"]
    cmp_ops = CMP_EDIT + ["write", "reimport", "reset"]
    return [
        dict(kind="raw", K=0, PP=2, MaxLen=3, MaxStamp=1, Depth=q(tier, 5, 7), ops=raw_ops, histk=0,
             replays=[rd("bytes", "u32", 1), rd("zerocopy", "u32", 1)] + q(tier, [], [rd("bytes", "u64", 3), rd("eager_bytes", "u32", 1)])),
        dict(kind="cmp", K=0, PP=2, MaxLen=5, MaxStamp=1, Depth=q(tier, 6, 8), ops=cmp_ops, histk=0,
             replays=[rd("pco", "u32", 1), rd("lz4", "u32", 1), rd("zstd", "u32", 1), rd("pco", "u32", 2048), rd("eager_pco", "u32", 1)]
                     + q(tier, [], [rd("lz4", "u32", 2048), rd("zstd", "u64", 1024), rd("pco", "u64", 1025)])),
        # states after commits and rollbacks (logical length above / below what is on disk)
        dict(kind="raw", K=2, PP=2, MaxLen=2, MaxStamp=3, Depth=q(tier, 7, 8), histk=0,
             ops=["push", "truncate", "update", "delete", "reimport", "commit", "rollback", "rollback_before"],
             replays=[rd("bytes", "u32", 1)] + q(tier, [], [rd("zerocopy", "u32", 1)])),
        dict(kind="cmp", K=2, PP=2, MaxLen=4, MaxStamp=3, Depth=q(tier, 6, 7), histk=0,
             ops=["push", "truncate", "reimport", "commit", "rollback", "rollback_before"],
             replays=[rd("pco", "u32", 1)] + q(tier, [], [rd("lz4", "u32", 2048)])),
    ]


READS_ASSUME = VEC_ASSUME + [
    "ranges: all pairs (from, to) over {0, 1, len-1, len, len+1, len+5} and the block boundaries +-1, reversed and out-of-range pairs included",
    "read-only clones, boxed clones, point readers and stored-only scans are compared with the reference only in states where everything is "
    "stored (right after a successful write / commit / re-import, no deleted slot); in other states they are exercised for the access tap only",
    "the generic entry points take the file-IO back-end only above 1 GiB; the IO sources are reached through fold_stored_io",
    "CachedVec is exercised on freshly wrapped read-only clones (cold, cache hit, get_at, refusing budget); a wrapper kept across in-place edits (D11) is not driven"]


@register("C08")
def c08(prop, tier, seed):
    r = vec_run(prop, tier, seed, reads_plan(tier),
                "non-trivial = length >= 3 with a continuation after re-import/reset/rollback; every state of every behaviour is read through every path",
                READS_ASSUME)
    r["violations"] = [v for v in r["violations"] if v.get("reads") or "panick" in str(v.get("what", ""))]
    return r


@register("C20")
def c20(prop, tier, seed):
    r = vec_run(prop, tier, seed, reads_plan(tier),
                "non-trivial = length >= 3 with a continuation after re-import/reset/rollback; every fetch from the mapping or the data file made while "
                "operating on and reading the vector is compared with the owning region's current length",
                READS_ASSUME + ["accesses are observed through the cfg(anydb_verif) access tap: Reader::unchecked_read, the raw strategies' pointer reads, "
                                "the bulk slice reads and the buffered file reads of the IO sources"])
    r["violations"] = [v for v in r["violations"] if v.get("access")]
    return r


# ----------------------------------------------------------------------------------------------
# code -> spec: recorded executions of the real vectors validated against spec/VecTrace.tla (C03, C04)
# ----------------------------------------------------------------------------------------------
VECTRACE_CFG = """SPECIFICATION TraceSpec
CONSTANTS
  Kind = "%s"
  K = %d
  PP = 2
  MaxLen = 30
  MaxStamp = 70
  Depth = 1000000
  Dev = %s
  Ops = {"push", "truncate", "update", "delete", "fill", "write", "reimport", "reset", "commit", "rollback", "rollback_before"}
  HistK = 0
CHECK_DEADLOCK FALSE
INVARIANT ViewEq
INVARIANT MustOk
INVARIANT Done
"""


def trace_vec(prop, tier, seed, combos):
    """combos: list of (format, kind, K). Returns dict like trace_raw."""
    known_ids = vlib.all_known_devs()
    devs = sorted(known_ids & {"D2", "D3", "D4", "D6", "D13"})
    st = "{" + ", ".join('"%s"' % x for x in devs) + "}"
    runs, ops = q(tier, (4, 200), (20, 400))
    wd = vlib.scratch_dir("vectrace")
    out = {"events": 0, "recordings": 0, "states": 0, "violations": [], "known": [], "tagged_cut": 0, "per_format": {}}
    try:
        jobs = []
        for i, (fmt, kind, K) in enumerate(combos):
            f = os.path.join(wd, f"t{i}.ndjson")
            vlib.run_vh(["vecrecord", "--format", fmt, "--k", str(K), "--seed", str(seed * 100 + i), "--runs", str(runs), "--ops", str(ops), "--out", f])
            jobs.append((fmt, kind, K, f))
        # binding self-test: one element of one observation changed -> rejected at that line
        fmt0, kind0, K0, f0 = jobs[0]
        lines = open(f0).read().splitlines()
        idx = next(i for i, l in enumerate(lines) if i > 5 and json.loads(l).get("obs", {}).get("view"))
        ev = json.loads(lines[idx]); ev["obs"]["view"][0] += 1
        bad = os.path.join(wd, "corrupt.ndjson")
        open(bad, "w").write("\n".join(lines[:idx] + [json.dumps(ev)] + lines[idx + 1:idx + 3]) + "\n")
        def val(kind, K, f, w):
            return vlib.run_tlc("VecTrace", VECTRACE_CFG % (kind, K, st), w, 1, 3000, emit_prefixes=("MISMATCH", "FINISHED"), extra_env={"TRACE": f, "JAVA_TOOL_OPTIONS": "-Xss512m"})
        with cf.ThreadPoolExecutor(8) as ex:
            fb = ex.submit(val, kind0, K0, bad, os.path.join(wd, "wbad"))
            futs = [(j, ex.submit(val, j[1], j[2], j[3], os.path.join(wd, f"w{i}"))) for i, j in enumerate(jobs)]
            rb = fb.result()
            mm = [json.loads(x) for x in rb["emitted"]["MISMATCH"]]
            if not mm or mm[0][0] != idx + 1:
                raise ToolError("vector trace binding self-test: a changed element at line %d was not rejected there (%s)" % (idx + 1, mm[:1]))
            out["selftest"] = "a recording with one element of one observation changed is rejected at exactly that line"
            for (fmt, kind, K, f), fu in futs:
                r = fu.result()
                recs = open(f).read().splitlines()
                if r["violated"]:
                    inv = r["violated"]
                    if "ViewEq" in inv or "MustOk" in inv:
                        out["violations"].append({"property": prop, "kind": "trace-invariant", "spec": "VecTrace", "format": fmt, "K": K, "what": inv})
                        continue
                    raise ToolError("vector trace validation failed (%s K=%d): %s" % (fmt, K, inv))
                if not r["emitted"]["FINISHED"]:
                    raise ToolError("vector trace validation did not finish (%s K=%d): %s" % (fmt, K, "\n".join(r["tail"][-6:])))
                out["events"] += len(recs); out["recordings"] += runs; out["states"] += r["distinct"]
                pf = out["per_format"].setdefault(f"{fmt}/K={K}", {"events": 0, "mismatches_after_known_deviation": 0})
                pf["events"] += len(recs)
                for m in (json.loads(x) for x in r["emitted"]["MISMATCH"]):
                    line = json.loads(recs[m[0] - 1])
                    start = max(j for j in range(m[0]) if json.loads(recs[j]).get("op") == "begin")
                    history = ["%s(%s)" % (e["op"], ",".join(map(str, e.get("args", [])))) for e in map(json.loads, recs[start + 1:m[0]])]
                    if m[3]:
                        out["tagged_cut"] += 1; pf["mismatches_after_known_deviation"] += 1
                        continue
                    out["violations"].append({"property": prop, "kind": "trace", "spec": "VecTrace", "format": fmt, "K": K, "line": m[0],
                                              "what": "after %s the real vector shows %s (result %s); no action of the specification explains it from %s"
                                                      % (history[-1], line.get("obs"), line.get("res"), m[2]), "history": history[-80:]})
    finally:
        shutil.rmtree(wd, ignore_errors=True)
    return out


def add_trace_vec(res, tr):
    c = res["coverage"]
    c["states"] += tr["states"]; c["traces_validated_against_impl"] += tr["recordings"]; c["evaluations"] += tr["events"]
    c["code_to_spec"] = {"recordings": tr["recordings"], "events_validated": tr["events"], "per_format": tr["per_format"], "cut_after_known_deviation": tr["tagged_cut"],
                         "binding_selftest": tr.get("selftest"),
                         "rule": "vh vecrecord drives a real vector with seeded random histories (push, truncate, update / delete / fill on raw formats, write, flush + re-import, reset, "
                                 "commit, rollback and rollback_before from committed states) and records every call with the observable state after it; TLC validates each recording "
                                 "against VecTrace.tla: the step must be the model's own action for that call with the logged arguments and end in the logged observable state; ViewEq / MustOk "
                                 "are evaluated on every state; a line no action explains in a behaviour that took no known deviation is a violation"}
    c["rule"] += " || code->spec: recorded random histories validated by TLC against VecTrace.tla"
    res["violations"] += tr["violations"]
    return res


@register("C04")
def c04(prop, tier, seed):
    raw_ops = ["push", "truncate", "update", "delete", "reimport", "commit", "rollback", "rollback_before"]
    cmp_ops = ["push", "truncate", "reimport", "commit", "rollback", "rollback_before"]
    plan = [
        dict(kind="raw", K=2, PP=2, MaxLen=2, MaxStamp=3, Depth=q(tier, 6, 7), ops=raw_ops, histk=3,
             replays=[("bytes", "u32", 1)]),
        dict(kind="raw", K=2, PP=2, MaxLen=3, MaxStamp=3, Depth=q(tier, 6, 7), ops=raw_ops, histk=q(tier, 0, 1),
             replays=[("bytes", "u32", 1), ("zerocopy", "u32", 1)] + q(tier, [], [("bytes", "u64", 3)])),
        dict(kind="cmp", K=2, PP=2, MaxLen=4, MaxStamp=3, Depth=q(tier, 6, 7), ops=cmp_ops, histk=q(tier, 3, 4),
             replays=[("pco", "u32", 1)]),
        dict(kind="cmp", K=2, PP=2, MaxLen=5, MaxStamp=3, Depth=q(tier, 7, 9), ops=cmp_ops, histk=q(tier, 0, 1),
             replays=[("pco", "u32", 1), ("lz4", "u32", 2048), ("zstd", "u32", 1), ("eager_pco", "u32", 1)]
                     + q(tier, [], [("pco", "u32", 2048), ("pco", "u64", 1023), ("lz4", "u64", 1025)])),
        dict(kind="raw", K=1, PP=2, MaxLen=3, MaxStamp=3, Depth=q(tier, 5, 7), ops=raw_ops, histk=q(tier, 1, 2),
             replays=[("bytes", "u32", 1)]),
        # long chains on one slot: update / commit / rollback / update / commit / commit / rollback (undo baselines across several commits)
        dict(kind="raw", K=2, PP=2, MaxLen=1, MaxStamp=3, Depth=q(tier, 10, 11), ops=["push", "update", "commit", "rollback"], histk=0,
             replays=[("bytes", "u32", 1)] + q(tier, [], [("zerocopy", "u32", 1)])),
        dict(kind="cmp", K=2, PP=2, MaxLen=2, MaxStamp=3, Depth=q(tier, 9, 10), ops=["push", "truncate", "commit", "rollback"], histk=0,
             replays=[("pco", "u32", 1)]),
    ]
    res = vec_run(prop, tier, seed, plan,
                   "non-trivial = length >= 3 and at least one further operation after a rollback (continuation after rollback)",
                   VEC_ASSUME + ["rollbacks are issued only when the contents equal the last committed state; plain write() between "
                                 "commits is outside the property's premise and not generated"])
    tr = trace_vec(prop, tier, seed, [("bytes", "raw", 1), ("bytes", "raw", 2), ("zerocopy", "raw", 2), ("bytes_be", "raw", 2), ("pco", "cmp", 1), ("pco", "cmp", 2), ("lz4", "cmp", 2), ("zstd", "cmp", 1)])
    return add_trace_vec(res, tr)


@register("C16")
def c16(prop, tier, seed):
    raw_ops = ["push", "truncate", "update", "commit", "rollback", "rollback_before", "fault"]
    cmp_ops = ["push", "truncate", "commit", "rollback", "rollback_before", "fault"]
    plan = []
    for K in (0, 1, 2):
        plan.append(dict(kind="raw", K=K, PP=2, MaxLen=2, MaxStamp=3, Depth=q(tier, 6, 8), ops=raw_ops, histk=q(tier, 1, 3),
                         replays=[("bytes", "u32", 1)] + q(tier, [], [("zerocopy", "u32", 1)])))
        plan.append(dict(kind="cmp", K=K, PP=2, MaxLen=3, MaxStamp=3, Depth=q(tier, 6, 8), ops=cmp_ops, histk=q(tier, 1, 3),
                         replays=[("pco", "u32", 1)] + q(tier, [], [("lz4", "u32", 1), ("zstd", "u32", 1)])))
    # records of an abandoned future: commits, rollback_before, re-commit of a used stamp, then a stamped write without a record + rollback (must refuse)
    plan.append(dict(kind="raw", K=2, PP=2, MaxLen=1, MaxStamp=3, Depth=q(tier, 9, 10), ops=["push", "commit", "rollback_before", "rollback", "swrite"], histk=q(tier, 1, 2),
                     replays=[("bytes", "u32", 1)]))
    plan.append(dict(kind="cmp", K=2, PP=2, MaxLen=1, MaxStamp=3, Depth=q(tier, 9, 10), ops=["push", "commit", "rollback_before", "rollback", "swrite"], histk=q(tier, 1, 2),
                     replays=[("pco", "u32", 1)]))
    return vec_run(prop, tier, seed, plan,
                   "non-trivial = length >= 3 and at least one further operation after a rollback; fault_corrupt truncates the "
                   "real change file at a byte offset that varies with the behaviour index",
                   VEC_ASSUME + ["single-file faults only: deletion of the current record, truncation of it at one byte offset per behaviour"])


# ----------------------------------------------------------------------------------------------
# rawdb: spec/RawDb.tla  (C01 C02 C13r)
# ----------------------------------------------------------------------------------------------
RAW_DESIGN_INVS = ["TypeOK", "RefEq", "MustOk", "Partition"]
ALL_WK = ["append", "at0", "atend", "tw0", "tw1", "oob"]


def raw_cfg(names, P, sizes, floor, initlen, maxfile, depth, ops, wkinds, pre, dev, invs, emit, histk=0, prewrite=False):
    st = lambda xs: "{" + ", ".join('"%s"' % x for x in xs) + "}"
    lines = ["SPECIFICATION Spec", "CONSTANTS", f"  Names = {st(names)}", f"  P = {P}",
             "  Sizes = {" + ", ".join(map(str, sizes)) + "}", f"  Floor = {floor}", f"  InitLen = {initlen}",
             f"  MaxFile = {maxfile}", f"  Depth = {depth}", f"  Dev = {st(sorted(dev))}", f"  Ops = {st(ops)}",
             f"  WKinds = {st(wkinds)}", f"  HistK = {histk}", f"  PreN = {len(pre)}", f"  PreWrite = {'TRUE' if prewrite else 'FALSE'}",
             "VIEW HView", "CONSTRAINT DepthOK", "CHECK_DEADLOCK FALSE"]
    lines += [f"INVARIANT {i}" for i in invs]
    if emit:
        lines.append("INVARIANT Emit")
    return "\n".join(lines) + "\n"


def raw_run(prop, tier, seed, plan, interesting, assumptions):
    """plan items: dict(names,P,sizes,initlen,maxfile,depth,ops,wkinds,histk,scales=[bytes per cell])"""
    known_ids = vlib.all_known_devs()
    raw_devs = sorted(known_ids & {"D1", "D15", "D8", "D36"})
    tot_states = tot_trans = behaviours = steps = nontrivial = cut = 0
    alloc_checked = alloc_equal = 0
    violations, known_seen, samples, runs, pathcov = [], {}, [], [], {}
    for item in plan:
        wd = vlib.scratch_dir("raw")
        try:
            P = item.get("P", 2)
            floor = (1 << 20) // (4096 // P)          # the production growth floor (1 MiB) in cells at exact scale
            base = (item["names"], P, item["sizes"], floor, item.get("initlen", 0), item["maxfile"], item["depth"], item["ops"],
                    item.get("wkinds", ALL_WK), item.get("pre", []))
            with cf.ThreadPoolExecutor(2) as ex:
                fd = ex.submit(vlib.run_tlc, "MCRawDb", raw_cfg(*base, [], RAW_DESIGN_INVS + item.get("design_invs", []), False, 0, item.get("prewrite", False)), os.path.join(wd, "design"), 6,
                               item.get("timeout", 1500))
                fa = ex.submit(vlib.run_tlc, "MCRawDb", raw_cfg(*base, raw_devs, ["TypeOK"], True, item.get("histk", 0), item.get("prewrite", False)),
                               os.path.join(wd, "asis"), 6, item.get("timeout", 1500))
                d, a = fd.result(), fa.result()
            if d["violated"]:
                raise ToolError("the intended-design model (Dev={}) violates its own invariant: %s ; ops=%s"
                                % (d["violated"], vlib.trace_ops(d["err_trace"])))
            if a["violated"]:
                raise ToolError("as-is model run failed: %s %s" % (a["violated"], a["err_trace"][:5]))
            if a["distinct"] == 0 or d["distinct"] == 0:
                raise ToolError("TLC explored nothing: " + "\n".join(a["tail"][-10:]))
            tot_states += d["distinct"] + a["distinct"]
            tot_trans += d["generated"] + a["generated"]
            paths = vlib.maximal_paths(a["emitted"]["REPLAY"])
            if not samples and paths:
                longest = max(paths, key=len)
                samples.append({"ops": ["%s(%s)" % (s["op"], ",".join(map(str, s["args"]))) for s in longest],
                                "final_expected": longest[-1]["exp"], "final_alloc": longest[-1]["alloc"]})
            nshards = max(1, min(8, len(paths) // 1000))
            shard_files = []
            for si in range(nshards):
                sf = os.path.join(wd, f"paths.{si}.ndjson")
                vlib.write_ndjson(sf, paths[si::nshards])
                shard_files.append(sf)
            with cf.ThreadPoolExecutor(14) as ex:
                futs = {}
                for sc in item["scales"]:
                    for si, sf in enumerate(shard_files):
                        futs[ex.submit(vlib.run_vh, ["rawreplay", "--in", sf, "--scale", str(sc), "--p", str(P),
                                                    "--init-len", str(item.get("initlen", 0))])] = (sc, si)
                for fu in cf.as_completed(futs):
                    sc, si = futs[fu]
                    r = fu.result()
                    behaviours += r["behaviours"]; steps += r["steps"]; nontrivial += r["distinct_nontrivial"]
                    cut += r["cut_permitted"]; alloc_checked += r["alloc_checked"]; alloc_equal += r["alloc_equal"]
                    for k, v in r["paths"].items():
                        pathcov[k] = pathcov.get(k, 0) + v
                    for k in r["known"]:
                        e = known_seen.setdefault(k["dev"], {"count": 0, "history": k["history"]})
                        e["count"] += k["count"]
                        if len(k["history"]) < len(e["history"]):
                            e["history"] = k["history"]
                    for v in r["violations"]:
                        v.update({"property": prop, "tier": tier, "seed": seed, "kind": "behaviour", "spec": "RawDb", "scale": sc, "P": P,
                                  "initlen": item.get("initlen", 0),
                                  "steps_full": paths[si::nshards][v["behaviour"]][: v["step"] + 1]})
                        violations.append(v)
            runs.append({k: item[k] for k in ("names", "sizes", "maxfile", "depth", "ops")} |
                        {"wkinds": item.get("wkinds", ALL_WK), "HistK": item.get("histk", 0), "initlen": item.get("initlen", 0),
                         "scales": item["scales"], "design_states": d["distinct"], "asis_states": a["distinct"], "paths": len(paths)})
        finally:
            shutil.rmtree(wd, ignore_errors=True)
    known_lines = []
    for dev, e in sorted(known_seen.items()):
        if dev in known_ids:
            known_lines.append("%s %s" % (dev, " ".join(e["history"])))
        else:
            violations.append({"property": prop, "kind": "unlisted-deviation", "dev": dev, "history": e["history"]})
    cov = {"states": tot_states, "transitions": tot_trans, "traces_validated_against_impl": behaviours, "samples": samples,
           "evaluations": steps, "distinct_nontrivial": nontrivial,
           "rule": "behaviours = maximal BFS-tree paths emitted by TLC for every distinct state of the bounded model, replayed on a real "
                   "Database at each scale (bytes per model cell; 2048 = exact scale where the allocator state is compared too); "
                   "distinct counts (scale, behaviour) pairs; " + interesting,
           "exhaustive": True, "runs": runs, "placement_paths": pathcov, "deviations_taken": {k: v["count"] for k, v in known_seen.items()},
           "cut_after_permitted_divergence": cut, "allocator_state_compared": alloc_checked, "allocator_state_equal": alloc_equal,
           "checker_cmd": "tlc -config <generated> MCRawDb.tla ; vh rawreplay"}
    return {"level": "model_checking", "coverage": cov, "assumptions": assumptions, "violations": violations, "known": known_lines}


RAW_ASSUME = ["TLC exhaustiveness is within the stated constants (names, sizes, depth, MaxFile) only",
              "one model cell = `scale` bytes filled with a (value, position) pattern; at scale 2048 (P=2) the model page is the real 4 KiB page",
              "extent invariants (C02) are evaluated on the real layout maps (pending holes and reservations through the cfg(anydb_verif) accessors)"]
ALL_RAW_OPS = ["create", "write", "truncate", "rename", "remove", "hold", "flush", "rflush", "compact", "reopen"]


def raw_plan(tier):
    return [
        # every operation and write kind, two names
        dict(names=["a", "b"], sizes=[1, 3, 5], maxfile=24, depth=q(tier, 5, 6), ops=ALL_RAW_OPS, histk=1,
             scales=[2048] + q(tier, [1000], [1, 1000, 4097])),
        # allocation focus: three names, growth / relocation / removal / hole reuse / reopen
        dict(names=["a", "b", "c"], sizes=[3, 5], maxfile=40, depth=q(tier, 6, 7), ops=["create", "write", "remove", "flush", "reopen"],
             wkinds=["append"], histk=0, scales=[2048] + q(tier, [], [4097])),
        # initial file sizes (open_with_min_len below / above one page, unaligned)
        # hole coalescing: four one-page regions already exist; removals / flushes / re-creation / growth
        dict(names=["a", "b", "c", "d"], pre=["a", "b", "c", "d"], sizes=[3], maxfile=24, depth=q(tier, 6, 7),
             ops=["create", "write", "remove", "flush"], wkinds=["append"], histk=0, scales=[2048]),
        dict(names=["a", "b"], sizes=[3], maxfile=24, depth=q(tier, 4, 6), ops=["create", "write", "remove", "flush", "reopen"],
             wkinds=["append"], initlen=1, scales=[2048]),
        dict(names=["a", "b"], sizes=[3], maxfile=24, depth=q(tier, 4, 6), ops=["create", "write", "remove", "flush", "reopen"],
             wkinds=["append"], initlen=5, scales=[2048]),
    ]


# ----------------------------------------------------------------------------------------------
# code -> spec: recorded executions of the real rawdb validated against spec/RawDbTrace.tla (C01, C02)
# ----------------------------------------------------------------------------------------------
RAWTRACE_CFG = """SPECIFICATION TraceSpec
CONSTANTS
  Names = {"a", "b", "c", "d", "e", "f"}
  P = 2
  Sizes = {1}
  Floor = 512
  InitLen = 0
  MaxFile = 1000000
  PreWrite = FALSE
  PreN = 0
  WKinds = {"append"}
  Depth = 1000000
  Dev = %s
  Ops = {}
  HistK = 0
CHECK_DEADLOCK FALSE
INVARIANT TraceRefEq
INVARIANT TracePartition
INVARIANT Done
"""


def trace_validate(trace_path, wd, devs):
    st = "{" + ", ".join('"%s"' % x for x in sorted(devs)) + "}"
    r = vlib.run_tlc("RawDbTrace", RAWTRACE_CFG % st, wd, 1, 3000, emit_prefixes=("MISMATCH", "FINISHED"), extra_env={"TRACE": trace_path, "JAVA_TOOL_OPTIONS": "-Xss512m"})
    return r


def trace_raw(prop, tier, seed):
    """returns dict(events, runs, mismatches[...], violations[...], known[...], selftest)"""
    known_ids = vlib.all_known_devs()
    devs = known_ids & {"D1", "D15"}
    nproc, runs, ops = q(tier, (3, 3, 150), (12, 10, 400))
    wd = vlib.scratch_dir("rawtrace")
    out = {"events": 0, "recordings": 0, "states": 0, "divergences": [], "violations": [], "known": [], "tagged_cut": 0}
    try:
        files = []
        for i in range(nproc):
            f = os.path.join(wd, f"t{i}.ndjson")
            vlib.run_vh(["rawrecord", "--seed", str(seed * 100 + i), "--runs", str(runs), "--ops", str(ops), "--out", f])
            files.append(f)
        # binding self-test: one corrupted field must be rejected at that line
        lines = open(files[0]).read().splitlines()
        idx = next(i for i, l in enumerate(lines) if i > 5 and json.loads(l).get("alloc", {}).get("regs"))
        ev = json.loads(lines[idx]); ev["alloc"]["regs"][0][1] += 2
        bad = os.path.join(wd, "corrupt.ndjson")
        open(bad, "w").write("\n".join(lines[:idx] + [json.dumps(ev)] + lines[idx + 1:idx + 3]) + "\n")
        with cf.ThreadPoolExecutor(6) as ex:
            fb = ex.submit(trace_validate, bad, os.path.join(wd, "wbad"), devs)
            futs = [ex.submit(trace_validate, f, os.path.join(wd, f"w{i}"), devs) for i, f in enumerate(files)]
            rb = fb.result()
            res = [fu.result() for fu in futs]
        mm = [json.loads(x) for x in rb["emitted"]["MISMATCH"]]
        if not mm or mm[0][0] != idx + 1:
            raise ToolError("trace binding self-test: a corrupted placement at line %d was not rejected there (%s)" % (idx + 1, mm[:1]))
        out["selftest"] = "a recording with one placement field shifted by one page is rejected at exactly that line"
        for f, r in zip(files, res):
            if r["violated"]:
                # an invariant of the specification fails on a state that explains the recording
                inv = r["violated"]
                which = "C01" if "TraceRefEq" in inv else "C02" if "TracePartition" in inv else None
                if which is None:
                    raise ToolError("trace validation failed: %s" % inv)
                if which == prop:
                    out["violations"].append({"property": prop, "kind": "trace-invariant", "spec": "RawDbTrace", "what": inv, "trace": open(f).read().splitlines()[:400]})
                continue
            fin = r["emitted"]["FINISHED"]
            if not fin:
                raise ToolError("trace validation did not finish: " + "\n".join(r["tail"][-8:]))
            recs = open(f).read().splitlines()
            out["events"] += len(recs); out["recordings"] += runs; out["states"] += r["distinct"]
            for m in (json.loads(x) for x in r["emitted"]["MISMATCH"]):
                line = json.loads(recs[m[0] - 1])
                tagged = m[8]
                start = max(j for j in range(m[0]) if json.loads(recs[j]).get("op") == "reset")
                history = ["%s(%s)" % (e["op"], ",".join(str(e[k]) for k in ("nm", "new", "at", "sz", "to") if k in e)) for e in map(json.loads, recs[start + 1:m[0]])]
                c01_bad, c02_bad = line.get("c01") is False, line.get("c02") != "ok"
                broken = (prop == "C01" and c01_bad) or (prop == "C02" and c02_bad)
                if tagged:
                    out["tagged_cut"] += 1
                    if broken:
                        out["known"].append("%s recorded history of %d calls ending %s" % ("+".join(tagged), len(history), " ".join(history[-4:])))
                elif broken:
                    out["violations"].append({"property": prop, "kind": "trace", "spec": "RawDbTrace", "line": m[0], "what": "recorded state after %s breaks %s: c01=%s c02=%s"
                                              % (history[-1] if history else "?", prop, line.get("c01"), line.get("c02")), "history": history[-60:],
                                              "logged": {k: line.get(k) for k in ("alloc", "contents", "res", "error")}, "model": {"alloc": m[2], "pend": m[3], "contents": m[4], "res": m[5], "must": m[6]}})
                else:
                    out["divergences"].append({"line": m[0], "after": history[-3:], "logged_alloc": line.get("alloc"), "model_alloc": m[2], "logged_res": line.get("res"), "model_res": m[5], "must": m[6]})
    finally:
        shutil.rmtree(wd, ignore_errors=True)
    return out


def add_trace(res, tr, prop):
    c = res["coverage"]
    c["states"] += tr["states"]
    c["traces_validated_against_impl"] += tr["recordings"]
    c["evaluations"] += tr["events"]
    c["code_to_spec"] = {"recordings": tr["recordings"], "events_validated": tr["events"], "divergences_from_spec_not_breaking_the_property": tr["divergences"][:5],
                         "divergence_count": len(tr["divergences"]), "cut_after_known_deviation": tr["tagged_cut"], "binding_selftest": tr.get("selftest"),
                         "rule": "vh rawrecord drives a real Database with seeded random histories (create / append / positional / truncating writes of 1..17 cells, truncate, rename, "
                                 "remove, flush, region flush, compact, reopen; one cell = 2048 bytes) and records each call with the placement of every region, holes, pending holes, "
                                 "file length and contents; TLC validates each recording against RawDbTrace.tla (same operators as RawDb.tla) line by line and evaluates RefEq / Partition "
                                 "on every state; a line the spec does not explain is a violation only if the recorded state itself breaks the property"}
    c["rule"] += " || code->spec: recorded random histories validated by TLC against RawDbTrace.tla"
    res["violations"] += tr["violations"]
    res["known"] += [k for k in tr["known"] if k not in res["known"]]
    return res


@register("C01")
def c01(prop, tier, seed):
    with cf.ThreadPoolExecutor(2) as ex:
        ft = ex.submit(trace_raw, prop, tier, seed)
        res = raw_run(prop, tier, seed, raw_plan(tier),
                      "non-trivial = length >= 3 containing a relocation, an adjacent-hole growth or a reopen", RAW_ASSUME)
        return add_trace(res, ft.result(), prop)


@register("C02")
def c02(prop, tier, seed):
    with cf.ThreadPoolExecutor(2) as ex:
        ft = ex.submit(trace_raw, prop, tier, seed)
        res = raw_run(prop, tier, seed, raw_plan(tier),
                      "non-trivial = length >= 3 containing a relocation, an adjacent-hole growth or a reopen", RAW_ASSUME)
        return add_trace(res, ft.result(), prop)


# ----------------------------------------------------------------------------------------------
# C10: spec/RawConc.tla (interleavings at lock-acquisition granularity) + RawDb.tla reader plan + seeded schedules
# ----------------------------------------------------------------------------------------------
def conc_cfg(item, dev, invs, emit):
    st = lambda xs: "{" + ", ".join('"%s"' % x for x in xs) + "}"
    nw = item.get("workers", 2)
    lines = ["SPECIFICATION Spec", "CONSTANTS", "  Workers = {" + ", ".join(str(i) for i in range(1, nw + 1)) + "}", f"  Maint = {nw + 1}",
             "  Sizes = {" + ", ".join(map(str, item["sizes"])) + "}", f"  MaxOps = {item['maxops']}", f"  MaxMaint = {item.get('maxmaint', 1)}",
             "  Floor = 256", f"  InitLen = {item.get('initlen', 1)}", f'  Setup = "{item["setup"]}"', f"  PreLen = {item.get('prelen', 0)}",
             f"  Ops = {st(item['ops'])}", f"  Dev = {st(sorted(dev))}", f"  Depth = {item.get('depth', 60)}", f"  HistK = {item.get('histk', 0)}",
             "VIEW HView", "CONSTRAINT DepthOK", "CHECK_DEADLOCK FALSE"]
    lines += [f"INVARIANT {i}" for i in invs]
    if emit:
        lines.append("INVARIANT Emit")
    return "\n".join(lines) + "\n"


CONC_INVS = ["Isolated", "ReaderOwn", "Partition", "NoOverlap"]


def conc_paths(emitted):
    hs = [json.loads(x) for x in emitted]
    keyed = {tuple((s[0], s[1], s[3], s[5]) for s in p): p for p in hs}
    pref = set()
    for k in keyed:
        for i in range(1, len(k)):
            pref.add(k[:i])
    return [p for k, p in keyed.items() if k not in pref and k]


def conc_item(prop, tier, seed, item, devs):
    """one RawConc configuration: design check, as-is emission, sharded replay. Returns a dict of partial results."""
    out = {"states": 0, "trans": 0, "behaviours": 0, "steps": 0, "nontrivial": 0, "ops_checked": 0, "alloc_checked": 0, "alloc_equal": 0, "cut": 0,
           "unbound": 0, "unbound_example": None, "segs": {}, "known": {}, "violations": [], "sample": None, "run": None}
    wd = vlib.scratch_dir("conc")
    try:
        with cf.ThreadPoolExecutor(2) as ex:
            fd = ex.submit(vlib.run_tlc, "RawConc", conc_cfg(item, [], CONC_INVS, False), os.path.join(wd, "design"), 4, item.get("timeout", 1800))
            fa = ex.submit(vlib.run_tlc, "RawConc", conc_cfg(item, devs, [], True), os.path.join(wd, "asis"), 4, item.get("timeout", 1800))
            d, a = fd.result(), fa.result()
        if d["violated"]:
            raise ToolError("RawConc intended design (Dev={}) violates its own invariant: %s" % d["violated"])
        if a["violated"]:
            raise ToolError("RawConc as-is run failed: %s" % a["violated"])
        if not a["distinct"] or not d["distinct"]:
            raise ToolError("TLC explored nothing (RawConc)")
        out["states"] = d["distinct"] + a["distinct"]; out["trans"] = d["generated"] + a["generated"]
        paths = conc_paths(a["emitted"]["REPLAY"])
        all_paths = len(paths)
        cap = item.get("max_paths")
        if cap and len(paths) > cap:
            # quick tier: a seed-dependent stride through the behaviours (TLC has still checked every state)
            stride = -(-len(paths) // cap)
            paths = paths[seed % stride::stride]
        if paths:
            lp = max(paths, key=len)
            out["sample"] = ["%d:%s%s" % (s[0], s[1], ("[%s %s]" % (s[3], s[5])) if s[1] == "op" else "") for s in lp]
        nsh = max(1, min(8, len(paths) // 500))
        futs = {}
        with cf.ThreadPoolExecutor(8) as ex:
            for si in range(nsh):
                sf = os.path.join(wd, f"p{si}.ndjson")
                vlib.write_ndjson(sf, paths[si::nsh])
                futs[ex.submit(vlib.run_vh, ["concmodel", "--in", sf, "--setup", item["setup"], "--prelen", str(item.get("prelen", 0)),
                                            "--init-len", str(item.get("initlen", 1)), "--threads", str(item.get("workers", 2) + 1)], 3000)] = si
            for fu in cf.as_completed(futs):
                si = futs[fu]
                r = fu.result()
                out["behaviours"] += r["behaviours"]; out["steps"] += r["steps"]; out["nontrivial"] += r["distinct_nontrivial"]
                out["ops_checked"] += r["operations_checked"]; out["alloc_checked"] += r["alloc_checked"]; out["alloc_equal"] += r["alloc_equal"]
                out["cut"] += r["cut_permitted"]; out["unbound"] += r["unbound"]
                out["unbound_example"] = out["unbound_example"] or r["unbound_example"]
                for k, v in r["segments"].items():
                    out["segs"][k] = out["segs"].get(k, 0) + v
                for k in r["known"]:
                    e = out["known"].setdefault(k["dev"], {"count": 0, "history": k["history"]})
                    e["count"] += k["count"]
                    if len(k["history"]) < len(e["history"]):
                        e["history"] = k["history"]
                for v in r["violations"]:
                    v.update({"property": prop, "tier": tier, "seed": seed, "kind": "behaviour", "spec": "RawConc", "setup": item["setup"],
                              "prelen": item.get("prelen", 0), "initlen": item.get("initlen", 1), "workers": item.get("workers", 2),
                              "steps_full": paths[si::nsh][v["behaviour"]]})
                    out["violations"].append(v)
        out["run"] = {k: item.get(k) for k in ("setup", "prelen", "sizes", "maxops", "maxmaint", "ops", "workers")} | \
                     {"design_states": d["distinct"], "asis_states": a["distinct"], "paths": all_paths, "paths_replayed": len(paths)}
    finally:
        shutil.rmtree(wd, ignore_errors=True)
    return out


def conc_run(prop, tier, seed, plan):
    known_ids = vlib.all_known_devs()
    devs = sorted(known_ids & {"D8", "D35", "D36"})
    states = trans = behaviours = steps = nontrivial = ops_checked = alloc_checked = alloc_equal = cut = unbound = 0
    violations, known_seen, runs, samples, segs = [], {}, [], [], {}
    unbound_example = None
    with cf.ThreadPoolExecutor(3) as ex:
        parts = list(ex.map(lambda it: conc_item(prop, tier, seed, it, devs), plan))
    for o in parts:
        states += o["states"]; trans += o["trans"]; behaviours += o["behaviours"]; steps += o["steps"]; nontrivial += o["nontrivial"]
        ops_checked += o["ops_checked"]; alloc_checked += o["alloc_checked"]; alloc_equal += o["alloc_equal"]; cut += o["cut"]; unbound += o["unbound"]
        unbound_example = unbound_example or o["unbound_example"]
        for k, v in o["segs"].items():
            segs[k] = segs.get(k, 0) + v
        for dv, e in o["known"].items():
            e0 = known_seen.setdefault(dv, {"count": 0, "history": e["history"]})
            e0["count"] += e["count"]
            if len(e["history"]) < len(e0["history"]):
                e0["history"] = e["history"]
        violations += o["violations"]
        runs.append(o["run"])
        if o["sample"] and len(samples) < 2:
            samples.append(o["sample"])
    # the model must see the deviations it is said to contain (non-vacuity of the invariants): each alone must break an invariant
    sens = {}
    wd = vlib.scratch_dir("concsens")
    try:
        for dev, item, inv in [
            ("D35", dict(setup="empty", sizes=[1, 2], maxops=2, ops=["create", "append", "compact"]), "Isolated"),
            ("D19", dict(setup="empty", sizes=[1], maxops=2, ops=["create", "append"]), "Partition"),
            ("D8", dict(setup="hole", prelen=1, sizes=[1], maxops=3, ops=["append", "reader", "flush"]), "ReaderOwn")]:
            r = vlib.run_tlc("RawConc", conc_cfg(item, [dev], CONC_INVS, False), os.path.join(wd, dev), 6, 900)
            sens[dev] = {"invariant_expected": inv, "tlc_reports": r["violated"]}
            if not r["violated"] or inv not in r["violated"]:
                raise ToolError("RawConc with Dev={%s} should violate %s, TLC reports %s" % (dev, inv, r["violated"]))
            states += r["distinct"]; trans += r["generated"]
    finally:
        shutil.rmtree(wd, ignore_errors=True)
    known_lines = []
    for dev, e in sorted(known_seen.items()):
        if all(x in known_ids for x in dev.split("+")):
            known_lines.append("%s %s" % (dev, " ".join(e["history"])))
        else:
            violations.append({"property": prop, "kind": "unlisted-deviation", "dev": dev, "history": e["history"]})
    if behaviours and unbound * 5 > behaviours:
        raise ToolError("more than a fifth of the RawConc behaviours could not be bound to the code's lock requests: %s" % unbound_example)
    cov = {"states": states, "transitions": trans, "traces_validated_against_impl": behaviours, "samples": samples, "evaluations": ops_checked + alloc_checked,
           "distinct_nontrivial": nontrivial,
           "rule": "RawConc: TLC enumerates every interleaving (to the stated bounds) of the critical sections of create / append (all placement paths) / truncate / "
                   "reader / flush / compact run by two worker threads on their own regions and a maintenance thread; Dev={} must satisfy Isolated, ReaderOwn, "
                   "Partition, NoOverlap; every maximal behaviour of the as-is model is replayed on real threads driven through the lock tap's gate (one model step "
                   "= one critical section, the request labels must match); the owner's view after each operation, reader bytes, and at quiescence the real layout "
                   "(compared with the model's) and the extent invariants are checked; non-trivial = steps of at least two threads",
           "runs": runs, "operations_checked": ops_checked, "layout_compared_at_quiescence": alloc_checked, "layout_equal": alloc_equal,
           "cut_after_permitted_divergence": cut, "behaviours_not_bound": unbound, "not_bound_example": unbound_example, "segments_replayed": segs,
           "deviations_taken": {k: v["count"] for k, v in known_seen.items()}, "spec_sensitivity": sens, "exhaustive": False,
           "replay_sampling": "quick tier replays at most 5000 behaviours per configuration (seed-dependent stride), thorough at most 40000",
           "checker_cmd": "tlc RawConc.tla ; vh concmodel"}
    return {"level": "model_checking", "coverage": cov,
            "assumptions": ["interleaving granularity: a thread runs from one lock request to the next boundary request without preemption (finer interleavings, e.g. "
                            "inside a memcpy, are only reached by the seeded free schedules)",
                            "workers own one region each; page-sized writes of one token; readers are taken only once the file has its final size (a reader blocks "
                            "file growth by design)", "TLC exhaustiveness is within the stated constants"],
            "violations": violations, "known": known_lines}


def conc_free(prop, tier, seed):
    """seeded lock-granular schedules of random per-thread programs (vh concreplay)"""
    known_ids = vlib.all_known_devs()
    cfgs = [["--threads", "2", "--ops", "14", "--no-remove"], ["--threads", "2", "--ops", "12"], ["--threads", "3", "--ops", "10", "--no-compact", "--no-remove"],
            ["--threads", "2", "--ops", "10", "--min-len", "4096", "--no-compact", "--no-remove"], ["--threads", "3", "--ops", "8", "--min-len", "4096", "--no-remove"]]
    n = q(tier, 150, 1500)
    tot = {"operations": 0, "lock_grants": 0, "distinct_schedules": 0, "timeouts": 0}
    violations, known_seen, runs = [], {}, []
    with cf.ThreadPoolExecutor(6) as ex:
        futs = {ex.submit(vlib.run_vh, ["concreplay", "--schedules", str(n), "--seed", str(seed * 100 + i)] + c, 6000): (i, c) for i, c in enumerate(cfgs)}
        for fu in cf.as_completed(futs):
            i, c = futs[fu]
            r = fu.result()
            for k in tot:
                tot[k] += r[k]
            runs.append({"args": " ".join(c), "operations": r["operations"], "distinct_schedules": r["distinct_schedules"], "timeouts": r["timeouts"]})
            for k in r["known"]:
                e = known_seen.setdefault(k["dev"], {"count": 0, "example": k["example"]})
                e["count"] += k["count"]
            for v in r["violations"]:
                v.update({"property": prop, "tier": tier, "kind": "schedule", "spec": "concreplay", "args": c, "run_seed": seed * 100 + i, "schedules": n})
                violations.append(v)
    known_lines = []
    for dev, e in sorted(known_seen.items()):
        if dev in known_ids:
            ex_ = e["example"] or {}
            known_lines.append("%s seeded schedule %s thread %s: %s" % (dev, ex_.get("seed"), ex_.get("thread"), str(ex_.get("what"))[:160]))
        else:
            violations.append({"property": prop, "kind": "unlisted-deviation", "dev": dev, "example": e["example"]})
    cov = {"states": 0, "transitions": 0, "traces_validated_against_impl": tot["distinct_schedules"], "samples": [], "evaluations": tot["operations"],
           "distinct_nontrivial": tot["distinct_schedules"], "runs": runs, "deviations_taken": {k: v["count"] for k, v in known_seen.items()},
           "rule": "seeded schedules: worker threads run seeded programs (create, append / positional write / truncate-write of 1 B..40 KB, truncate, rename, remove+recreate, "
                   "short readers) on their own region, a maintenance thread flushes / compacts; every lock request parks at the gate and a seeded controller releases one "
                   "thread at a time; after each own operation the region is compared with the thread's private reference, at quiescence the extent invariants are evaluated; "
                   "timeouts (no progress) are counted, never judged", "lock_grants": tot["lock_grants"], "timeouts": tot["timeouts"]}
    return {"level": "model_checking", "coverage": cov, "assumptions": ["free schedules sample, they do not enumerate"], "violations": violations, "known": known_lines}


def conc_plan(tier):
    return [dict(it, max_paths=q(tier, 5000, 40000)) for it in conc_plan0(tier)]


def conc_plan0(tier):
    return [
        dict(setup="empty", sizes=[1, 2], maxops=q(tier, 2, 3), maxmaint=1, ops=q(tier, ["create", "append", "truncate", "flush", "compact"], ["create", "append", "flush", "compact"])),
        dict(setup="hole", prelen=1, sizes=[1, 2], maxops=2, maxmaint=q(tier, 1, 2), ops=["append", "truncate", "flush", "compact"]),
        dict(setup="two", prelen=1, sizes=[1, 2], maxops=2, maxmaint=1, ops=["append", "truncate", "reader", "flush"]),
        dict(setup="hole", prelen=1, sizes=[1], maxops=3, maxmaint=1, ops=["append", "reader", "flush"]),
    ] + q(tier, [], [
        dict(setup="two", prelen=0, sizes=[1, 2, 3], maxops=2, maxmaint=2, ops=["append", "truncate", "flush", "compact"]),
        dict(setup="hole", prelen=1, sizes=[1], maxops=3, maxmaint=1, ops=["append", "reader", "flush", "compact"], timeout=3000),
    ])


@register("C10")
def c10(prop, tier, seed):
    conc = conc_run(prop, tier, seed, conc_plan(tier))
    # a long-lived reader against every sequential history of the allocator (RawDb.tla: ReaderOwn)
    rdr = raw_run(prop, tier, seed, [
        dict(names=["a", "b"], sizes=[1, 3], maxfile=24, depth=q(tier, 5, 6), ops=["create", "write", "truncate", "flush", "compact", "reader"],
             wkinds=["append", "tw0"], pre=["a"], prewrite=True, histk=0, scales=[2048], design_invs=["ReaderOwn"]),
    ], "non-trivial = length >= 3 containing a relocation, an adjacent-hole growth or a reopen", RAW_ASSUME)
    free = conc_free(prop, tier, seed)
    out = conc
    for r in (rdr, free):
        for k in ("states", "transitions", "traces_validated_against_impl", "evaluations", "distinct_nontrivial"):
            out["coverage"][k] += r["coverage"][k]
        out["violations"] += r["violations"]
        out["known"] += [k for k in r["known"] if k not in out["known"]]
        out["assumptions"] += [a for a in r["assumptions"] if a not in out["assumptions"]]
    out["coverage"]["sequential_reader_plan"] = {k: rdr["coverage"][k] for k in ("runs", "deviations_taken", "allocator_state_compared", "allocator_state_equal")}
    out["coverage"]["free_schedules"] = {k: free["coverage"][k] for k in ("runs", "deviations_taken", "lock_grants", "timeouts", "rule")}
    return out


# ----------------------------------------------------------------------------------------------
# C09: spec/VecConc.tla (writer / reader critical sections) replayed through the gate + seeded schedules with growth
# ----------------------------------------------------------------------------------------------
def vconc_cfg(kind, item, dev, invs, emit):
    st = lambda xs: "{" + ", ".join('"%s"' % x for x in xs) + "}"
    lines = ["SPECIFICATION Spec", "CONSTANTS", f'  Kind = "{kind}"', f"  PP = {item.get('pp', 4)}", "  Batches = {" + ", ".join(map(str, item["batches"])) + "}",
             f"  MaxWrites = {item['maxw']}", "  Readers = {" + ", ".join(str(i) for i in range(1, item.get('readers', 1) + 1)) + "}", f"  MaxReads = {item['maxr']}",
             f"  ReadOps = {st(item.get('readops', ['len', 'fold']))}", f"  PreLen = {item['prelen']}", f"  Dev = {st(sorted(dev))}", f"  Depth = {item.get('depth', 90)}",
             f"  HistK = {item.get('histk', 0)}", f"  Reloc = {'TRUE' if item.get('reloc') else 'FALSE'}", "VIEW HView", "CONSTRAINT DepthOK", "CHECK_DEADLOCK FALSE"]
    lines += [f"INVARIANT {i}" for i in invs]
    if emit:
        lines.append("INVARIANT Emit")
    return "\n".join(lines) + "\n"


VCONC_INVS = ["ReaderPrefix", "Complete", "Readable"]


def vconc_paths(emitted):
    hs = [json.loads(x) for x in emitted]
    keyed = {tuple((s[0], s[1], s[3], s[4]) for s in p): p for p in hs}
    pref = set()
    for k in keyed:
        for i in range(1, len(k)):
            pref.add(k[:i])
    return [p for k, p in keyed.items() if k not in pref and k]


def vconc_item(prop, tier, seed, item, known_ids):
    out = {"states": 0, "trans": 0, "behaviours": 0, "steps": 0, "nontrivial": 0, "ops_checked": 0, "cut": 0, "unbound": 0, "unbound_example": None,
           "segs": {}, "known": {}, "violations": [], "sample": None, "run": None}
    kind = item["kind"]
    devs = sorted(known_ids & {"D18"}) if kind == "cmp" else []
    wd = vlib.scratch_dir("vconc")
    try:
        with cf.ThreadPoolExecutor(2) as ex:
            fd = ex.submit(vlib.run_tlc, "VecConc", vconc_cfg(kind, item, [], VCONC_INVS, False), os.path.join(wd, "design"), 4, 1800)
            fa = ex.submit(vlib.run_tlc, "VecConc", vconc_cfg(kind, item, devs, [], True), os.path.join(wd, "asis"), 4, 1800)
            d, a = fd.result(), fa.result()
        if d["violated"]:
            raise ToolError("VecConc intended design (Dev={}) violates its own invariant: %s" % d["violated"])
        if a["violated"]:
            raise ToolError("VecConc as-is run failed: %s" % a["violated"])
        if not a["distinct"] or not d["distinct"]:
            raise ToolError("TLC explored nothing (VecConc)")
        out["states"] = d["distinct"] + a["distinct"]; out["trans"] = d["generated"] + a["generated"]
        paths = vconc_paths(a["emitted"]["REPLAY"])
        all_paths = len(paths)
        cap = item.get("max_paths")
        if cap and len(paths) > cap:
            stride = -(-len(paths) // cap)
            paths = paths[seed % stride::stride]
        if paths:
            lp = max(paths, key=len)
            out["sample"] = ["%d:%s%s" % (s[0], s[1], ("[%s %s]" % (s[3], s[4])) if s[1] == "op" else "") for s in lp]
        sf = os.path.join(wd, "p.ndjson")
        vlib.write_ndjson(sf, paths)
        futs = {}
        with cf.ThreadPoolExecutor(6) as ex:
            for fmt in item["formats"]:
                futs[ex.submit(vlib.run_vh, ["vecconc", "--in", sf, "--format", fmt, "--prelen", str(item["prelen"]), "--pp", str(item.get("pp", 4)),
                                            "--readers", str(item.get("readers", 1))], 3000)] = fmt
            for fu in cf.as_completed(futs):
                fmt = futs[fu]
                r = fu.result()
                out["behaviours"] += r["behaviours"]; out["steps"] += r["steps"]; out["nontrivial"] += r["distinct_nontrivial"]
                out["ops_checked"] += r["operations_checked"]; out["cut"] += r["cut_permitted"]; out["unbound"] += r["unbound"]
                out["unbound_example"] = out["unbound_example"] or r["unbound_example"]
                for k, v in r["segments"].items():
                    out["segs"][k] = out["segs"].get(k, 0) + v
                for k in r["known"]:
                    e = out["known"].setdefault(k["dev"], {"count": 0, "history": k["history"]})
                    e["count"] += k["count"]
                    if len(k["history"]) < len(e["history"]):
                        e["history"] = k["history"]
                for v in r["violations"]:
                    v.update({"property": prop, "tier": tier, "seed": seed, "kind": "behaviour", "spec": "VecConc", "format": fmt, "prelen": item["prelen"],
                              "pp": item.get("pp", 4), "readers": item.get("readers", 1), "steps_full": paths[v["behaviour"]]})
                    out["violations"].append(v)
        out["run"] = {k: item.get(k) for k in ("kind", "formats", "prelen", "batches", "maxw", "maxr", "readers", "pp")} | \
                     {"design_states": d["distinct"], "asis_states": a["distinct"], "paths": all_paths, "paths_replayed": len(paths)}
    finally:
        shutil.rmtree(wd, ignore_errors=True)
    return out


def vfree(prop, tier, seed):
    known_ids = vlib.all_known_devs()
    n = q(tier, 40, 400)
    tot = {"reads": 0, "writes": 0, "lock_grants": 0, "distinct_schedules": 0, "timeouts": 0}
    violations, known_seen, runs = [], {}, []
    fmts = ["bytes", "zerocopy", "bytes_be", "pco", "lz4", "zstd"]
    with cf.ThreadPoolExecutor(6) as ex:
        futs = {ex.submit(vlib.run_vh, ["vecfree", "--format", fm, "--schedules", str(n), "--seed", str(seed * 10 + i)], 6000): (i, fm) for i, fm in enumerate(fmts)}
        for fu in cf.as_completed(futs):
            i, fm = futs[fu]
            r = fu.result()
            for k in tot:
                tot[k] += r[k]
            runs.append({"format": fm, "reads": r["reads"], "writes": r["writes"], "distinct_schedules": r["distinct_schedules"], "timeouts": r["timeouts"]})
            for k in r["known"]:
                e = known_seen.setdefault(k["dev"], {"count": 0, "example": k["example"]})
                e["count"] += k["count"]
            for v in r["violations"]:
                v.update({"property": prop, "tier": tier, "kind": "schedule", "spec": "vecfree", "format": fm, "run_seed": seed * 10 + i, "schedules": n})
                violations.append(v)
    known_lines = []
    for dev, e in sorted(known_seen.items()):
        if dev in known_ids:
            ex_ = e["example"] or {}
            known_lines.append("%s seeded schedule %s %s: %s" % (dev, ex_.get("seed"), ex_.get("thread"), str(ex_.get("what"))[:170]))
        else:
            violations.append({"property": prop, "kind": "unlisted-deviation", "dev": dev, "example": e["example"]})
    return {"tot": tot, "runs": runs, "violations": violations, "known": known_lines, "deviations": {k: v["count"] for k, v in known_seen.items()}}


def vconc_plan(tier):
    cap = q(tier, 3000, 30000)
    return [
        dict(kind="raw", formats=["bytes", "zerocopy", "bytes_be"], prelen=1, batches=[1, 2, 3], maxw=2, maxr=q(tier, 2, 3), readers=1, histk=q(tier, 1, 2), max_paths=cap),
        dict(kind="cmp", formats=["pco", "lz4", "zstd"], prelen=1, batches=[1, 2, 3], maxw=2, maxr=q(tier, 2, 3), readers=1, histk=q(tier, 1, 2), max_paths=cap),
        dict(kind="cmp", formats=["pco", "lz4"], prelen=q(tier, 3, 5), batches=[1, 4], maxw=2, maxr=2, readers=1, histk=1, max_paths=cap),
        dict(kind="cmp", formats=["pco"], prelen=0, batches=[1, 2], maxw=q(tier, 2, 3), maxr=2, readers=2, histk=0, max_paths=cap),
        dict(kind="raw", formats=["bytes"], prelen=0, batches=[1, 2], maxw=q(tier, 2, 3), maxr=2, readers=2, histk=0, max_paths=cap),
    ]


@register("C09")
def c09(prop, tier, seed):
    known_ids = vlib.all_known_devs()
    plan = vconc_plan(tier)
    with cf.ThreadPoolExecutor(3) as ex:
        parts = list(ex.map(lambda it: vconc_item(prop, tier, seed, it, known_ids), plan))
        ffree = ex.submit(vfree, prop, tier, seed)
        free = ffree.result()
    states = trans = behaviours = nontrivial = ops_checked = cut = unbound = 0
    violations, known_seen, runs, samples, segs = [], {}, [], [], {}
    unbound_example = None
    for o in parts:
        states += o["states"]; trans += o["trans"]; behaviours += o["behaviours"]; nontrivial += o["nontrivial"]; ops_checked += o["ops_checked"]
        cut += o["cut"]; unbound += o["unbound"]; unbound_example = unbound_example or o["unbound_example"]
        for k, v in o["segs"].items():
            segs[k] = segs.get(k, 0) + v
        for dv, e in o["known"].items():
            e0 = known_seen.setdefault(dv, {"count": 0, "history": e["history"]})
            e0["count"] += e["count"]
            if len(e["history"]) < len(e0["history"]):
                e0["history"] = e["history"]
        violations += o["violations"]; runs.append(o["run"])
        if o["sample"] and len(samples) < 2:
            samples.append(o["sample"])
    # the model must see D18 (non-vacuity): with the deviation alone the invariants break
    wd = vlib.scratch_dir("vconcsens")
    try:
        r = vlib.run_tlc("VecConc", vconc_cfg("cmp", dict(prelen=1, batches=[1, 2, 3], maxw=1, maxr=2), ["D18"], VCONC_INVS, False), os.path.join(wd, "d18"), 4, 600)
        if not r["violated"]:
            raise ToolError("VecConc with Dev={D18} should violate an invariant")
        sens = {"D18": r["violated"]}
        states += r["distinct"]; trans += r["generated"]
        # relocation of the data region during a write (TLC only: the placement path of compressed data is not predictable, so these behaviours are not replayed;
        # the real code is exercised on them by vecfree): the intended design must hold, D37 alone must break ReaderPrefix
        reloc = {}
        for kind in ("raw", "cmp"):
            it = dict(prelen=1, batches=[1, 2, 4], maxw=2, maxr=2, reloc=True)
            rr = vlib.run_tlc("VecConc", vconc_cfg(kind, it, [], VCONC_INVS, False), os.path.join(wd, "reloc" + kind), 4, 900)
            if rr["violated"]:
                raise ToolError("VecConc with relocation: the intended design (%s) violates %s" % (kind, rr["violated"]))
            reloc[kind] = rr["distinct"]; states += rr["distinct"]; trans += rr["generated"]
        r37 = vlib.run_tlc("VecConc", vconc_cfg("cmp", dict(prelen=1, batches=[1, 2, 4], maxw=2, maxr=2, reloc=True), ["D37"], VCONC_INVS, False), os.path.join(wd, "d37"), 4, 600)
        if not r37["violated"] or "ReaderPrefix" not in r37["violated"]:
            raise ToolError("VecConc with relocation and Dev={D37} should violate ReaderPrefix, TLC reports %s" % r37["violated"])
        sens["D37"] = r37["violated"]
        sens["relocation_design_states"] = reloc
        # "no read blocks forever": liveness under weak fairness, no state constraint, no VIEW (small configuration)
        live = {}
        for kind in ("raw", "cmp"):
            lcfg = vconc_cfg(kind, dict(prelen=1, batches=[1, 3], maxw=2, maxr=2, readers=1, depth=100000), devs_live := sorted(known_ids & {"D18"}) if kind == "cmp" else [], [], False)
            lcfg = lcfg.replace("SPECIFICATION Spec", "SPECIFICATION FairSpec").replace("VIEW HView\n", "").replace("CONSTRAINT DepthOK\n", "") + "PROPERTY ReadsEnd\nPROPERTY WritesEnd\n"
            rl = vlib.run_tlc("VecConc", lcfg, os.path.join(wd, "live" + kind), 4, 1500)
            if rl["violated"]:
                raise ToolError("VecConc liveness (%s): %s" % (kind, rl["violated"]))
            live[kind] = rl["distinct"]; states += rl["distinct"]; trans += rl["generated"]
        sens["liveness_ReadsEnd_WritesEnd_states"] = live
    finally:
        shutil.rmtree(wd, ignore_errors=True)
    known_lines = []
    for dev, e in sorted(known_seen.items()):
        if all(x in known_ids for x in dev.split("+")):
            known_lines.append("%s %s" % (dev, " ".join(e["history"])))
        else:
            violations.append({"property": prop, "kind": "unlisted-deviation", "dev": dev, "history": e["history"]})
    if behaviours and unbound * 5 > behaviours:
        raise ToolError("more than a fifth of the VecConc behaviours could not be bound to the code's lock requests: %s" % unbound_example)
    violations += free["violations"]
    known_lines += [k for k in free["known"] if k not in known_lines]
    cov = {"states": states, "transitions": trans, "traces_validated_against_impl": behaviours + free["tot"]["distinct_schedules"], "samples": samples,
           "evaluations": ops_checked + free["tot"]["reads"], "distinct_nontrivial": nontrivial + free["tot"]["distinct_schedules"],
           "rule": "VecConc: TLC enumerates every interleaving (to the bounds) of the writer's write() critical sections (raw: data copy | region length + publication; compressed: plan | "
                   "decode partial page | data copy | region length | page index + publication, fast and re-encoding paths) with readers' len / fold steps (length load | placement "
                   "snapshot | mapping guard | page-index guard | one step per closure call); Dev={} must satisfy ReaderPrefix, Complete, Readable; every behaviour of the as-is model is "
                   "replayed on real vectors (u32, one model element = 1024 real elements, 4 per real page) with the threads driven through the lock gate and the closure pausing at "
                   "the gate; each len() is followed at once by a read of everything below it, each fold must yield exactly the writer's values; non-trivial = both writer and reader steps. "
                   "|| vecfree: seeded lock-granular schedules with random batch sizes, region relocation and growth during reads, two readers, all five formats",
           "runs": runs, "operations_checked": ops_checked, "cut_after_permitted_divergence": cut, "behaviours_not_bound": unbound, "not_bound_example": unbound_example,
           "segments_replayed": segs, "deviations_taken": {k: v["count"] for k, v in known_seen.items()}, "spec_sensitivity": sens, "free_schedules": {"runs": free["runs"]} | free["tot"] |
           {"deviations_taken": free["deviations"]}, "exhaustive": False,
           "replay_sampling": "quick tier replays at most 3000 behaviours per configuration and format (seed-dependent stride), thorough at most 30000",
           "checker_cmd": "tlc VecConc.tla ; vh vecconc ; vh vecfree"}
    return {"level": "model_checking", "coverage": cov,
            "assumptions": ["model replay: the data region is pre-sized so that every write fits (the model has no region growth); growth / relocation during reads is exercised by the "
                            "seeded schedules only", "granularity: lock request to lock request, plus one pause per closure call of a fold (per 1024 real elements)",
                            "readers are read-only clones (len, fold_range_at, collect_one_at); VecReader point readers and iterators share these sources and are not driven separately",
                            "seeded schedules sample, they do not enumerate; no verdict is taken from elapsed time (stalls are counted as timeouts)"],
            "violations": violations, "known": known_lines}


# ----------------------------------------------------------------------------------------------
# import matrix: spec/Import.tla (C14)
# ----------------------------------------------------------------------------------------------
def import_cfg(formats, depth, dev, invs, emit):
    st = lambda xs: "{" + ", ".join('"%s"' % x for x in xs) + "}"
    lines = ["SPECIFICATION Spec", "CONSTANTS", "  Versions = {1, 2}", f"  Formats = {st(formats)}", f"  Depth = {depth}",
             f"  Dev = {st(sorted(dev))}", "VIEW HView", "CONSTRAINT DepthOK", "CHECK_DEADLOCK FALSE"]
    lines += [f"INVARIANT {i}" for i in invs]
    if emit:
        lines.append("INVARIANT Emit")
    return "\n".join(lines) + "\n"


@register("C14")
def c14(prop, tier, seed):
    known_ids = vlib.all_known_devs()
    devs = sorted(known_ids & {"D7", "D21"})
    plans = [(["bytes", "pco", "zerocopy"], q(tier, 4, 5)), (["lz4", "zstd", "bytes"], q(tier, 4, 5))] + q(tier, [], [(["bytes", "zerocopy", "pco", "lz4", "zstd"], 4)])
    states = trans = behaviours = steps = nontrivial = cut = 0
    violations, known_seen, samples, runs = [], {}, [], []
    for formats, depth in plans:
        wd = vlib.scratch_dir("imp")
        try:
            d = vlib.run_tlc("MCImport", import_cfg(formats, depth, [], ["ImportOK"], False), os.path.join(wd, "design"), 4, 600)
            a = vlib.run_tlc("MCImport", import_cfg(formats, depth, devs, [], True), os.path.join(wd, "asis"), 4, 600)
            if d["violated"] or a["violated"]:
                raise ToolError("Import model: %s %s" % (d["violated"], a["violated"]))
            if not a["distinct"]:
                raise ToolError("TLC explored nothing")
            states += d["distinct"] + a["distinct"]; trans += d["generated"] + a["generated"]
            paths = vlib.maximal_paths(a["emitted"]["REPLAY"])
            nd = os.path.join(wd, "p.ndjson")
            vlib.write_ndjson(nd, paths)
            if not samples:
                samples.append(["%s(%s)" % (s["op"], ",".join(map(str, s["args"]))) for s in max(paths, key=len)])
            r = vlib.run_vh(["importreplay", "--in", nd])
            behaviours += r["behaviours"]; steps += r["steps"]; nontrivial += r["distinct_nontrivial"]; cut += r["cut_permitted"]
            for k in r["known"]:
                e = known_seen.setdefault(k["dev"], {"count": 0, "history": k["history"]})
                e["count"] += k["count"]
                if len(k["history"]) < len(e["history"]):
                    e["history"] = k["history"]
            for v in r["violations"]:
                v.update({"property": prop, "tier": tier, "seed": seed, "spec": "Import", "steps_full": paths[v["behaviour"]][: v["step"] + 1]})
                violations.append(v)
            runs.append({"formats": formats, "depth": depth, "design_states": d["distinct"], "asis_states": a["distinct"], "paths": len(paths)})
        finally:
            shutil.rmtree(wd, ignore_errors=True)
    known_lines = []
    for dev, e in sorted(known_seen.items()):
        if dev in known_ids:
            known_lines.append("%s %s" % (dev, " ".join(e["history"])))
        else:
            violations.append({"property": prop, "kind": "unlisted-deviation", "dev": dev, "history": e["history"]})
    cov = {"states": states, "transitions": trans, "traces_validated_against_impl": behaviours, "samples": samples, "evaluations": steps,
           "distinct_nontrivial": nontrivial, "exhaustive": True, "runs": runs, "cut_after_permitted_divergence": cut,
           "deviations_taken": {k: v["count"] for k, v in known_seen.items()},
           "rule": "all sequences of import(entry, version, format) / fill+flush / delete+flush up to the depth, over versions {1,2}, both entry points and the "
                   "listed formats (so every (stored version, requested version, stored format, requested format, creating entry, reopening entry) "
                   "combination with and without data and auxiliary regions); non-trivial = at least two imports",
           "checker_cmd": "tlc MCImport.tla ; vh importreplay"}
    return {"level": "model_checking", "coverage": cov,
            "assumptions": ["element type u32, index type usize", "lock / I/O errors during import are not injected (the 'never on lock or I/O errors' clause is decided only by "
                            "the model's case analysis of the error kinds that trigger a reset)"],
            "violations": violations, "known": known_lines}


# ----------------------------------------------------------------------------------------------
# crash points x write-back subsets on the real code, behaviours and I/O order from spec/RawDb.tla (C05 C12)
# ----------------------------------------------------------------------------------------------
def crash_run(prop, tier, seed, plan, assumptions):
    known_ids = vlib.all_known_devs()
    raw_devs = sorted(known_ids & {"D1", "D15", "D8", "D36"})
    states = trans = behaviours = images = points = events = nontrivial = iomis = regime2 = in_compact = 0
    violations, known_seen, samples, runs = [], {}, [], []
    for item in plan:
        wd = vlib.scratch_dir("crash")
        try:
            P = 2
            floor = (1 << 20) // (4096 // P)
            base = (item["names"], P, item["sizes"], floor, 0, item["maxfile"], item["depth"], item["ops"], item.get("wkinds", ["append"]), item.get("pre", []))
            d = vlib.run_tlc("MCRawDb", raw_cfg(*base, [], RAW_DESIGN_INVS, False, 0, item.get("prewrite", False)), os.path.join(wd, "design"), 8, 1500)
            a = vlib.run_tlc("MCRawDb", raw_cfg(*base, raw_devs, ["TypeOK"], True, item.get("histk", 0), item.get("prewrite", False)), os.path.join(wd, "asis"), 8, 1500)
            if d["violated"] or a["violated"]:
                raise ToolError("RawDb model: %s %s %s" % (d["violated"], a["violated"], vlib.trace_ops(d["err_trace"])))
            if not a["distinct"]:
                raise ToolError("TLC explored nothing")
            states += d["distinct"] + a["distinct"]; trans += d["generated"] + a["generated"]
            paths = vlib.maximal_paths(a["emitted"]["REPLAY"])
            # crash points are only counted after a completed flush: keep behaviours that contain one
            paths = [p for p in paths if any(s["op"] in ("flush", "compact") for s in p[:-1])]
            all_paths = len(paths)
            cap = q(tier, 20000, 12000)
            if len(paths) > cap:
                # a seed-dependent stride through the behaviours (TLC has still explored every state; the crash model RawCrash.tla is exhaustive on its own bounds)
                stride = -(-len(paths) // cap)
                paths = paths[seed % stride::stride]
            if not samples and paths:
                p0 = max(paths, key=len)
                samples.append({"ops": ["%s(%s)" % (s["op"], ",".join(map(str, s["args"]))) for s in p0], "io_of_last_op": p0[-1]["io"]})
            nsh = max(1, min(14, len(paths) // 300))
            files = []
            for si in range(nsh):
                sf = os.path.join(wd, f"p.{si}.ndjson")
                vlib.write_ndjson(sf, paths[si::nsh])
                files.append(sf)
            with cf.ThreadPoolExecutor(14) as ex:
                futs = {ex.submit(vlib.run_vh, ["crashreplay", "--in", sf, "--max-choices", str(item.get("choices", 12)), "--prop", prop], 5000): si
                        for si, sf in enumerate(files)}
                for fu in cf.as_completed(futs):
                    si = futs[fu]
                    r = fu.result()
                    behaviours += r["behaviours"]; images += r["images"]; points += r["crash_points"]; events += r["events"]
                    nontrivial += r["distinct_nontrivial"]; iomis += r["io_kind_mismatch"]; regime2 += r["regime2_checked"]
                    in_compact += r["crash_points_inside_compact"]
                    for k in r["known"]:
                        e = known_seen.setdefault(k["dev"], {"count": 0, "history": k["history"]})
                        e["count"] += k["count"]
                        if len(k["history"]) < len(e["history"]):
                            e["history"] = k["history"]
                    for v in r["violations"]:
                        v.update({"property": prop, "tier": tier, "seed": seed, "spec": "RawDb-crash", "choices": item.get("choices", 12),
                                  "steps_full": paths[si::nsh][v["behaviour"]]})
                        violations.append(v)
            runs.append({k: item[k] for k in ("names", "sizes", "depth", "ops")} | {"pre": item.get("pre", []), "prewrite": item.get("prewrite", False),
                        "asis_states": a["distinct"], "design_states": d["distinct"], "behaviours_with_flush": all_paths, "behaviours_replayed": len(paths)})
        finally:
            shutil.rmtree(wd, ignore_errors=True)
    # a different I/O order than the model's is reported in the evidence, not judged: the crash images above were built from the REAL event stream
    known_lines = []
    for dev, e in sorted(known_seen.items()):
        if dev in known_ids:
            known_lines.append("%s %s" % (dev, " ".join(e["history"])))
        else:
            violations.append({"property": prop, "kind": "unlisted-deviation", "dev": dev, "history": e["history"]})
    cov = {"evaluations": images, "distinct_nontrivial": nontrivial, "samples": samples,
           "rule": "behaviours (containing a completed flush) emitted by TLC from spec/RawDb.tla are executed with the I/O tap on; every event index after the "
                   "first completed flush is a crash point; per crash point the write-back choices are: nothing, everything, each single dirty page alone, "
                   "all but one, each older version of a page, all-metadata, all-data and (<= 6 dirty pages) every subset, capped per crash point with rotation; "
                   "each image is materialised and opened with Database::open; non-trivial behaviour = contains a flush and >= 3 operations",
           "states": states, "transitions": trans, "traces_validated_against_impl": behaviours, "crash_points": points, "io_events": events,
           "io_order_mismatches_vs_model": iomis, "library_syncs_only_checks": regime2, "crash_points_inside_compact": in_compact,
           "deviations_taken": {k: v["count"] for k, v in known_seen.items()}, "runs": runs, "exhaustive": False,
           "checker_cmd": "tlc MCRawDb.tla ; vh crashreplay"}
    return {"level": "fault_enumeration", "coverage": cov, "assumptions": assumptions, "violations": violations, "known": known_lines}


CRASH_ASSUME = ["crash model of C05: 4 KiB page writes atomic, file-length changes durable in order, hole punches immediate; crash images are reconstructed "
                "from the I/O tap (every mmap write with its bytes, set_len, sync, punch), not produced by power cuts",
                "the I/O event kinds and order of every operation must equal the io list the TLA+ model predicts for it (otherwise tool error)",
                "UntouchedIntact is checked for regions whose metadata was ever written (C01's persistence condition); the library-syncs-only clause is checked on "
                "the images with no OS write-back"]


def crash_model(tier):
    """spec/RawCrash.tla: durable-image semantics over the event order of RawDb.tla; CrashSafe / PunchSafe on the intended design,
    and the recorded deviation D15 must break it (non-vacuity)."""
    P = 2
    floor = (1 << 20) // (4096 // P)
    out = {"states": 0, "transitions": 0, "runs": []}
    wd = vlib.scratch_dir("crashmodel")
    try:
        items = [
            dict(names=["a", "b"], sizes=q(tier, [1, 3], [1, 3, 5]), depth=6, ops=["create", "write", "truncate", "remove", "flush", "compact", "rflush"], wkinds=["append", "tw0"], pre=[]),
            dict(names=["a", "b", "c"], sizes=[3], depth=q(tier, 4, 5), ops=["create", "write", "remove", "flush", "compact"], wkinds=["append"], pre=["a", "b"], prewrite=True),
        ]
        futs = []
        with cf.ThreadPoolExecutor(3) as ex:
            for i, it in enumerate(items):
                base = (it["names"], P, it["sizes"], floor, 0, 24, it["depth"], it["ops"], it["wkinds"], it["pre"])
                cfg = raw_cfg(*base, [], ["CrashSafe", "CrashSafeAfter", "PunchSafe", "SyncOnlySafe", "CacheAgrees"], False, 0, it.get("prewrite", False)).replace("VIEW HView", "VIEW CView")
                futs.append((it, ex.submit(vlib.run_tlc, "RawCrash", cfg, os.path.join(wd, f"d{i}"), 5, 2400)))
            sens_base = (["a", "b"], P, [1, 3], floor, 0, 24, 6, ["create", "write", "remove", "flush"], ["append"], [])
            scfg = raw_cfg(*sens_base, ["D15"], ["CrashSafeAny"], False, 0, False).replace("VIEW HView", "VIEW CView")
            fs = ex.submit(vlib.run_tlc, "RawCrash", scfg, os.path.join(wd, "sens"), 5, 1200)
            # a hypothetical order (compact punches first, flushes afterwards) must break the syncs-only clause
            xbase = (["a", "b"], P, [3], floor, 0, 24, 5, ["create", "write", "truncate", "flush", "compact"], ["append"], [])
            fx = ex.submit(vlib.run_tlc, "RawCrash", raw_cfg(*xbase, ["XPF"], ["SyncOnlySafeAny"], False, 0, False).replace("VIEW HView", "VIEW CView"), os.path.join(wd, "xpf"), 4, 1200)
            for it, fu in futs:
                r = fu.result()
                if r["violated"]:
                    raise ToolError("RawCrash: the intended design violates %s ; ops=%s" % (r["violated"], vlib.trace_ops(r["err_trace"])))
                if not r["distinct"]:
                    raise ToolError("RawCrash explored nothing")
                out["states"] += r["distinct"]; out["transitions"] += r["generated"]
                out["runs"].append({k: it[k] for k in ("names", "sizes", "depth", "ops")} | {"states": r["distinct"]})
            rs = fs.result()
            if not rs["violated"] or "CrashSafeAny" not in rs["violated"]:
                raise ToolError("RawCrash with Dev={D15} should violate CrashSafeAny, TLC reports %s" % rs["violated"])
            rx = fx.result()
            if not rx["violated"] or "SyncOnlySafeAny" not in rx["violated"]:
                raise ToolError("RawCrash with the hypothetical punch-first compact should violate SyncOnlySafeAny, TLC reports %s" % rx["violated"])
            out["sensitivity"] = {"D15": rs["violated"], "hypothetical punch-before-flush in compact": rx["violated"]}
            out["states"] += rs["distinct"]; out["transitions"] += rs["generated"]
    finally:
        shutil.rmtree(wd, ignore_errors=True)
    out["rule"] = ("RawCrash.tla replays the I/O events of every history of RawDb.tla into a durable-image model (per-page versions since the last sync, syncs, ordered length changes, "
                   "immediate punches) and TLC checks, in every state, every crash point inside the last operation x every per-page write-back choice: recovered slots well-formed, "
                   "pairwise disjoint, inside the file; every region untouched since the last completed flush recovers its flushed bytes (CrashSafe, CrashSafeAfter); with the durable "
                   "image alone (library syncs only) every flushed region not overwritten in place recovers as flushed or as at the start of the interrupted flush (SyncOnlySafe); no punch "
                   "touches bytes that any possible image's metadata assigns to a region (PunchSafe); on the intended design (Dev={}); D15 alone, and a hypothetical punch-first compact, must fail")
    return out


def add_crash_model(res, cm):
    c = res["coverage"]
    c["states"] += cm["states"]; c["transitions"] += cm["transitions"]
    c["crash_model"] = cm
    c["rule"] += " || spec-level: RawCrash.tla (durable-image semantics in TLA+) model-checked on the intended design"
    return res


@register("C05")
def c05(prop, tier, seed):
    plan = [
        dict(names=["a", "b", "c", "d"], pre=["a", "b", "c"], prewrite=True, sizes=[3], maxfile=40, depth=q(tier, 4, 6),
             ops=["create", "write", "remove", "flush", "compact"], choices=q(tier, 8, 16)),
        # freed extents (relocation / removal) vs the per-region flush, then reuse of the extent by a new region
        dict(names=["a", "b", "c", "d"], pre=["a", "b", "c"], prewrite=True, sizes=[1, 3], maxfile=40, depth=q(tier, 4, 5),
             ops=["create", "write", "remove", "rflush"], histk=q(tier, 2, 3), choices=q(tier, 8, 16)),
        dict(names=["a", "b"], sizes=[3, 5], maxfile=40, depth=q(tier, 6, 7), ops=["create", "write", "truncate", "rename", "remove", "flush", "rflush"],
             wkinds=["append", "at0", "tw1"], choices=q(tier, 8, 16)),
    ]
    with cf.ThreadPoolExecutor(1) as ex:
        fm = ex.submit(crash_model, tier)
        res = crash_run(prop, tier, seed, plan, CRASH_ASSUME)
        return add_crash_model(res, fm.result())


@register("C12")
def c12(prop, tier, seed):
    # compaction: crash points inside and after compact() (reserved tails, promoted and pending holes), and through the C01 replay:
    # readable bytes, lengths, placement and file length unchanged by compact
    crash = crash_run(prop, tier, seed, [
        dict(names=["a", "b", "c", "d"], pre=["a", "b", "c"], prewrite=True, sizes=[3], maxfile=40, depth=q(tier, 4, 5),
             ops=["write", "remove", "compact", "create"], choices=q(tier, 8, 16)),
        # a region truncated by whole pages since the last flush, then compact: its tail must not be punched while durable metadata still covers it
        dict(names=["a", "b"], pre=["a", "b"], prewrite=True, sizes=[3, 5], maxfile=40, depth=q(tier, 4, 5),
             ops=["write", "truncate", "flush", "compact"], wkinds=["append"], histk=q(tier, 3, 4), choices=q(tier, 8, 16)),
    ], CRASH_ASSUME)
    live = raw_run(prop, tier, seed, [
        dict(names=["a", "b", "c"], pre=["a", "b", "c"], sizes=[1, 5], maxfile=40, depth=q(tier, 4, 6), ops=["write", "truncate", "remove", "flush", "compact", "create"],
             wkinds=["append", "tw1"], histk=0, scales=[2048]),
    ], "non-trivial = length >= 3 containing a relocation, an adjacent-hole growth or a reopen", RAW_ASSUME)
    cov = crash["coverage"]
    lc = live["coverage"]
    cov["evaluations"] += lc["evaluations"]; cov["distinct_nontrivial"] += lc["distinct_nontrivial"]
    cov["states"] += lc["states"]; cov["transitions"] += lc["transitions"]; cov["traces_validated_against_impl"] += lc["traces_validated_against_impl"]
    cov["samples"] += lc["samples"]; cov["runs"] += lc["runs"]
    cov["allocator_state_compared_around_compact"] = lc["allocator_state_compared"]
    cov["rule"] += " || plus the C01-style replay (contents, allocator state and file length compared with the model after every step, compact in the alphabet)"
    crash["violations"] += live["violations"]
    crash["known"] += [k for k in live["known"] if k not in crash["known"]]
    crash["assumptions"] += ["concurrent writers during compact() are not exercised by this check (see C10)"]
    return add_crash_model(crash, crash_model(tier))


# ----------------------------------------------------------------------------------------------
# C11: lock programs mined from the code, composed and model-checked (spec/Locks.tla), deadlocks replayed under the gate
# ----------------------------------------------------------------------------------------------
@register("C11")
def c11(prop, tier, seed):
    import locks, collections
    mined = locks.mine()
    expected = {"create", "write_fits", "write_last", "write_last_grow_file", "write_reloc_end", "write_reloc_hole", "write_adjacent_hole", "truncate",
                "rename", "remove", "region_flush_data", "db_flush_dirty", "db_flush_clean", "compact", "reader", "set_min_len_grow",
                "raw_write_push", "raw_write_holes", "raw_flush", "raw_commit", "cmp_write_fast", "cmp_write_slow_fill_page", "cmp_write_many_pages",
                "cmp_collect", "cmp_ro_collect", "cmp_fold_stored_io", "cmp_flush"}
    got = {p["name"] for p in mined if p["prog"]}
    if expected - got:
        raise ToolError("lock programs were not observed for: %s (vacuity guard)" % sorted(expected - got))
    progs = locks.distinct_programs(mined)
    wd = vlib.scratch_dir("locks")
    known = {k["signature"]: k for k in vlib.load_known() if k.get("status") == "known" and "C11" in k.get("properties", []) and isinstance(k.get("signature"), str)}
    states = trans = 0
    violations, known_lines, classes_out, samples = [], [], [], []
    try:
        all_dead = []
        cand_counts = {}
        for nt in (2, 3):
            if tier == "thorough":
                g, d, dead = locks.run_all_deadlocks(progs, nt, os.path.join(wd, f"all{nt}"), timeout=3000, workers=14)
                cand_counts[nt] = "all combinations"
            else:
                cands = locks.candidate_combos(progs, nt)
                cand_counts[nt] = len(cands)
                if nt == 2:
                    # pairs are cheap: always the full product
                    g, d, dead = locks.run_all_deadlocks(progs, nt, os.path.join(wd, f"all{nt}"), timeout=900, workers=12)
                elif cands:
                    g, d, dead = locks.run_all_deadlocks(progs, nt, os.path.join(wd, f"cand{nt}"), timeout=1500, workers=12, combos=cands)
                else:
                    g, d, dead = 0, 0, []
            states += d; trans += g
            all_dead += dead
        by_sig = collections.defaultdict(list)
        for x in all_dead:
            by_sig[locks.signature(progs, x)].append(x)
        replays = 0
        for sig, lst in sorted(by_sig.items()):
            rep = lst[0]
            names = ["|".join(progs[i - 1]["names"]) for i in rep["pick"]]
            conf = locks.confirm_on_real_code(progs, (rep["pick"], rep["variant"]), os.path.join(wd, "confirm"))
            replays += 1
            entry = {"signature": sig, "deadlocked_states": len(lst), "program_combinations": len({(tuple(x["pick"]), tuple(x["variant"])) for x in lst}),
                     "example": names, "replay_on_real_code": conf.get("confirmed"), "replay_detail": conf.get("detail")}
            classes_out.append(entry)
            if sig in known:
                if conf.get("confirmed"):
                    known_lines.append("%s %s" % (known[sig]["id"], " || ".join(names)))
                else:
                    # a listed deadlock that no longer reproduces on the real code is not reported (it may have been repaired);
                    # the model still contains it, which is recorded in the evidence
                    pass
            else:
                if conf.get("confirmed") is False and isinstance(conf.get("detail"), dict) and conf["detail"].get("steps_done") == conf["detail"].get("steps_total") \
                        and all(conf["detail"].get("finished", [False])):
                    # the schedule was replayed to its end and every call returned: the abstraction over-approximated
                    entry["verdict"] = "refuted by replay (all calls returned)"
                    continue
                violations.append({"property": prop, "tier": tier, "seed": seed, "kind": "deadlock", "spec": "Locks", "signature": sig,
                                   "programs": names, "pick": rep["pick"], "variant": rep["variant"], "pc": rep["pc"],
                                   "lock_programs": [progs[i - 1]["prog"] for i in rep["pick"]], "replay": conf})
        samples = [{"program": p["names"], "locks": " ".join(("+" if k == "acq" else "-") + l + m for k, l, m in p["prog"])} for p in progs[:6]]
    finally:
        shutil.rmtree(wd, ignore_errors=True)
    cov = {"states": states, "transitions": trans, "traces_validated_against_impl": len(mined), "samples": samples,
           "evaluations": len(mined) + len(classes_out), "distinct_nontrivial": len(progs),
           "rule": "lock programs are recorded from the real code (one public call per scenario, every placement path / write regime / reader kind), reduced "
                   "(read sections held alone are dropped) and de-duplicated; TLC checks NoDeadlock for every pair and (quick: every triple that passes a static "
                   "necessary condition for a deadlocked state; thorough: every triple) on shared and on distinct regions; every deadlock class is replayed on the "
                   "real code under the lock gate and judged by the wait-for graph of the tap's events; distinct_nontrivial = distinct reduced programs",
           "mined_scenarios": len(mined), "distinct_programs": len(progs), "candidate_combinations": cand_counts,
           "deadlock_classes": classes_out, "exhaustive": tier == "thorough", "checker_cmd": "vh lockmine ; tlc Locks.tla ; vh sched"}
    return {"level": "model_checking", "coverage": cov,
            "assumptions": ["lock semantics: parking_lot task-fair RwLock (a queued writer blocks new readers)", "lock instances are abstracted to own/other region or vector; "
                            "a thread runs one public call", "leaf mutexes (dirty bounds, background-task list) and the vector header lock are not traced",
                            "keeping a Reader alive across another call of the same thread (documented misuse) is excluded: each program is one call"],
            "violations": violations, "known": known_lines}


# ----------------------------------------------------------------------------------------------
# C15 lazy vectors (spec/Lazy.tla), C17 codecs (spec/Codec.tla), C06/C19 eager computations (spec/Eager.tla)
# ----------------------------------------------------------------------------------------------
def case_run(module, cfg, timeout=900):
    wd = vlib.scratch_dir("case")
    try:
        a = vlib.run_tlc(module, cfg, wd, 8, timeout)
    finally:
        shutil.rmtree(wd, ignore_errors=True)
    if a["violated"]:
        raise ToolError("%s: %s %s" % (module, a["violated"], a["err_trace"][:12]))
    if not a["distinct"]:
        raise ToolError(module + ": TLC explored nothing")
    return a


@register("C15")
def c15(prop, tier, seed):
    n, m = q(tier, (3, 3), (4, 4))
    known_ids = vlib.all_known_devs()
    dev = "{" + ", ".join('"%s"' % d for d in sorted(known_ids & {"D10"})) + "}"
    cfg = f"SPECIFICATION Spec\nCONSTANTS\n  MaxN = {n}\n  MaxM = {m}\n  Dev = {dev}\nINVARIANT Agrees\nINVARIANT Emit\nCHECK_DEADLOCK FALSE\n"
    a = case_run("MCLazy", cfg, 2400)
    cases = [json.loads(x) for x in a["emitted"]["REPLAY"]]
    wd = vlib.scratch_dir("lazy")
    try:
        nd = os.path.join(wd, "cases.ndjson")
        vlib.write_ndjson(nd, cases)
        r = vlib.run_vh(["lazyreplay", "--in", nd, "--all", "--max-violations", "5"], timeout=1800)
    finally:
        shutil.rmtree(wd, ignore_errors=True)
    known_lines = ["%s %s" % (k["dev"], json.dumps(k.get("example"))) for k in r.get("known", []) if k["dev"] in known_ids]
    violations = [dict(v, property=prop, spec="Lazy") for v in r.get("violations", [])]
    for kk in r.get("known", []):
        if kk["dev"] not in known_ids:
            violations.append({"property": prop, "kind": "unlisted-deviation", "dev": kk["dev"], "example": kk.get("example")})
    cov = {"states": a["distinct"], "transitions": a["generated"], "traces_validated_against_impl": r["cases"],
           "samples": [cases[len(cases) // 2], cases[-1]], "evaluations": r["reads"], "distinct_nontrivial": r["distinct_nontrivial"],
           "rule": "every case of the bounded input space of spec/Lazy.tla (source length <= MaxN, every monotone window-start / first-index mapping of length <= MaxM "
                   "incl. empty windows and mappings shorter/longer than the source, every range, every ascending index list) is evaluated by TLC (transcription = "
                   "defining formula) and replayed on the real LazyDeltaVec / LazyAggVec(Sparse) / LazyVecFrom1,2,3 through ~35 read paths x 4 source variants; "
                   "non-trivial = source length >= 2 and a non-empty mapping",
           "exhaustive": True, "variants": r.get("variants"), "panics_observed": r.get("panics_observed"), "len_vs_mapping_mismatch": r.get("len_vs_mapping_mismatch"),
           "checker_cmd": "tlc MCLazy.tla ; vh lazyreplay"}
    return {"level": "model_checking", "coverage": cov,
            "assumptions": ["fixed source contents (distinct increasing integers); DeltaChange checked on exactly representable values; DeltaAvg / DeltaRate bodies not exercised",
                            "harness built with integer overflow checks on"],
            "violations": violations, "known": known_lines}


@register("C17")
def c17(prop, tier, seed):
    cfg = "SPECIFICATION Spec\nINVARIANT DecodeSound\nINVARIANT DecodeComplete\nINVARIANT Emit\nCHECK_DEADLOCK FALSE\n"
    a = case_run("MCCodec", cfg)
    cases = [json.loads(x) for x in a["emitted"]["REPLAY"]]
    known = [k for k in vlib.load_known() if k.get("status") == "known" and "C17" in k.get("properties", []) and isinstance(k.get("signature"), dict)]
    classes = {c: k["id"] for k in known for c in k["signature"].get("class", [])}
    wd = vlib.scratch_dir("codec")
    try:
        nd = os.path.join(wd, "cases.ndjson")
        vlib.write_ndjson(nd, cases)
        r = vlib.run_vh(["codecreplay", "--in", nd, "--keep-going", "--max-violations", "5", "--known", ",".join(sorted(classes))] if classes
                        else ["codecreplay", "--in", nd, "--keep-going", "--max-violations", "5"], timeout=1800)
    finally:
        shutil.rmtree(wd, ignore_errors=True)
    known_lines = []
    seen_ids = {}
    for kk in r.get("known", []):
        seen_ids.setdefault(classes.get(kk["id"], kk["id"]), []).append("%s x%d %s" % (kk["id"], kk["count"], json.dumps(kk["example"].get("case"))))
    for i, parts in sorted(seen_ids.items()):
        known_lines.append("%s %s" % (i, " ; ".join(parts)))
    violations = [dict(v, property=prop, spec="Codec") for v in r.get("violations", [])]
    cov = {"evaluations": r["evaluations"], "distinct_nontrivial": r["distinct_nontrivial"], "samples": [cases[0], cases[len(cases) // 2], cases[-1]],
           "rule": "the product of boundary classes per field of the metadata slot (0, 1, 4095, 4096, 4097, 8192, 2^32, 2^63, 2^64-1; name lengths 0/1/1024/1025/4064/4065/2^63; "
                   "valid/invalid UTF-8; exact/short/empty input), of the vector header, the page entry and the rollback change record (each length field x "
                   "{exact, 0, -1, +1, 2^61, 2^63, 2^64-1}, every field-boundary cut and every byte cut) is enumerated by TLC with the expected outcome class and "
                   "materialised as bytes for the real decoders; every slot case is also opened inside a real database next to two valid slots; plus numeric "
                   "value round trips at boundary values. distinct = executed cases",
           "states": a["distinct"], "transitions": a["generated"], "traces_validated_against_impl": r["cases"], "by_kind": r.get("by_kind"),
           "open_wild": {k: v for k, v in r.get("open_wild", {}).items() if k in ("ok", "panic", "err", "ok_but_reading_it_panics", "ok_but_good_regions_damaged")},
           "peak_alloc": r.get("peak_alloc"), "skipped": r.get("skipped"), "exhaustive": True, "checker_cmd": "tlc MCCodec.tla ; vh codecreplay"}
    return {"level": "exploration", "coverage": cov,
            "assumptions": ["the TLA+ model owns the case analysis (field classes, decoder check order, expected outcome class); byte strings are built by the harness",
                            "page entries are exercised through a PcoVec (Page is crate-private); harness built with integer overflow checks on; memory faults are "
                            "contained in forked children"],
            "violations": violations, "known": known_lines}


def eager_histories(depth, histk, maxlen, wd, scheme="cum"):
    cfg = f"""SPECIFICATION Spec
CONSTANTS
  Vals = {{0, 1, 5}}
  MaxLen = {maxlen}
  W = 2
  Caps = {{0, 1, 2}}
  Depth = {depth}
  Scheme = "{scheme}"
  HistK = {histk}
VIEW HView
CONSTRAINT DepthOK
CHECK_DEADLOCK FALSE
INVARIANT Correct
INVARIANT VersionRule
"""
    states = trans = 0
    for s in ("id", "cum", "max", "rsum"):
        a = vlib.run_tlc("MCEager", cfg.replace('Scheme = "%s"' % scheme, 'Scheme = "%s"' % s) + ("INVARIANT Emit\n" if s == scheme else ""),
                         os.path.join(wd, "tlc_" + s), 6, 1500)
        if a["violated"]:
            raise ToolError("Eager model (%s): %s" % (s, a["violated"]))
        states += a["distinct"]; trans += a["generated"]
        if s == scheme:
            hs = [json.loads(x) for x in a["emitted"]["REPLAY"]]
    keyed = {}
    for p in hs:
        keyed[tuple(json.dumps(s, sort_keys=True) for s in p)] = p
    pref = set()
    for kx in keyed:
        for i in range(1, len(kx)):
            pref.add(kx[:i])
    mx = [p for kx, p in keyed.items() if kx not in pref and any(s["op"] == "compute" for s in p)]
    return states, trans, mx


EAGER_KNOWN_METHODS = {"all_time_low_excl": "D23", "first_per_index": "D30"}


def eager_run(prop, tier, seed, methods, windows, fmts, note):
    known_ids = vlib.all_known_devs()
    wd = vlib.scratch_dir("eager")
    violations, known_lines, per_method = [], [], {}
    try:
        states, trans, hs = eager_histories(q(tier, 6, 7), q(tier, 2, 3), q(tier, 3, 4), wd)
        # a rotating sample per method keeps the quick tier short; thorough takes up to 6000 histories per method (at a greater depth and HistK)
        nd_all = os.path.join(wd, "all.ndjson")
        vlib.write_ndjson(nd_all, hs)
        jobs = []
        cap = min(q(tier, 1200, 6000), len(hs))
        for mi, m in enumerate(methods):
            sub = hs[mi % 7::max(1, len(hs) // cap)][:cap] if cap < len(hs) else hs
            f = os.path.join(wd, f"h_{m}.ndjson")
            vlib.write_ndjson(f, sub)
            for w in windows:
                for (sf, of) in fmts:
                    jobs.append((m, w, sf, of, f, sub))
        computes = steps = behaviours = nontrivial = multi = 0
        def one(job):
            m, w, sf, of, f, sub = job
            p = __import__("subprocess").run(["timeout", "3000", vlib.VH, "eagerreplay", "--in", f, "--method", m, "--window", str(w), "--srcfmt", sf, "--outfmt", of,
                                              "--hang-secs", "10"], stdout=__import__("subprocess").PIPE, stderr=__import__("subprocess").DEVNULL, text=True)
            if p.returncode not in (0, 1):
                raise ToolError(f"eagerreplay {m} rc={p.returncode}")
            return job, json.loads([l for l in p.stdout.splitlines() if l.startswith("{")][-1])
        with cf.ThreadPoolExecutor(14) as ex:
            for job, r in ex.map(one, jobs):
                m, w, sf, of, f, sub = job
                computes += r["computes"]; steps += r["steps"]; behaviours += r["behaviours"]; nontrivial += r["distinct_nontrivial"]; multi += r["batches_gt1"]
                pm = per_method.setdefault(m, {"computes": 0, "violations": 0})
                pm["computes"] += r["computes"]; pm["violations"] += len(r["violations"])
                for v in r["violations"]:
                    dev = EAGER_KNOWN_METHODS.get(m)
                    if dev and dev in known_ids:
                        line = "%s %s: %s" % (dev, m, " ".join(v.get("steps", [])))
                        if not any(l.startswith(dev + " ") for l in known_lines):
                            known_lines.append(line)
                    else:
                        violations.append(dict(v, property=prop, spec="Eager", method=m, window=w, srcfmt=sf, outfmt=of,
                                               steps_full=sub[v["behaviour"]] if v.get("behaviour") is not None and v["behaviour"] < len(sub) else None))
    finally:
        shutil.rmtree(wd, ignore_errors=True)
    sample = [{"ops": [s["op"] + (str(s.get("vals", "")) if s["op"] == "append" else ("(mf=%s,cap=%s)" % (s.get("max_from"), s.get("cap")) if s["op"] == "compute" else
                                                                                    ("(%s)" % s.get("to") if s["op"] == "truncate" else ""))) for s in hs[len(hs) // 2]]}]
    cov = {"states": states, "transitions": trans, "traces_validated_against_impl": behaviours, "samples": sample, "evaluations": computes,
           "distinct_nontrivial": nontrivial,
           "rule": "histories (append / truncate+regrow with max_from <= first changed index / version bump / write / re-import / compute with batch capacity 0,1,2) "
                   "are enumerated by TLC from spec/Eager.tla (whose four resume schemes are model-checked against the from-scratch definition) and replayed on every "
                   "registered compute_* method; after every compute the stored result must equal a fresh one-batch from-scratch run (and a closed form where one is "
                   "registered); " + note + "; non-trivial = history with >= 2 compute steps; evaluations = compute calls checked",
           "methods": len(methods), "windows": windows, "formats": ["%s->%s" % x for x in fmts], "multi_batch_computes": multi, "histories": len(hs),
           "per_method": per_method, "exhaustive": tier == "thorough", "checker_cmd": "tlc MCEager.tla ; vh eagerreplay --method <m>"}
    return {"level": "model_checking", "coverage": cov,
            "assumptions": ["value-level oracle = the property's own definition (fresh from-scratch run of the same method) plus closed forms for 41 methods (harness side)",
                            "float methods are driven only with inputs on which their arithmetic is exact (see harness/EAGER_NOTES.md); compute_rolling_sd / compute_expanding_sd are skipped",
                            "batch capacity is set through the cfg(anydb_verif) hook vecdb::verif::set_max_cache_size"],
            "violations": violations, "known": known_lines}


def eager_methods():
    p = __import__("subprocess").run([vlib.VH, "eagerreplay", "--list"], stdout=__import__("subprocess").PIPE, text=True)
    return [l.strip() for l in p.stdout.splitlines() if l.strip()]


@register("C06")
def c06(prop, tier, seed):
    ms = eager_methods()
    if len(ms) < 50:
        raise ToolError("eagerreplay --list returned %d methods" % len(ms))
    return eager_run(prop, tier, seed, ms, q(tier, [2], [0, 1, 2, 6]), q(tier, [("bytes", "pco")], [("bytes", "bytes"), ("pco", "pco"), ("bytes", "pco"), ("pco", "bytes")]),
                     "window sizes per tier")


@register("C19")
def c19(prop, tier, seed):
    r = eager_run(prop, tier, seed, ["transform", "to", "cumulative", "sum", "max", "add", "previous_value", "sum_from_indexes", "transform2", "transform3", "transform4"], [2],
                  q(tier, [("bytes", "bytes"), ("pco", "pco")], [("bytes", "bytes"), ("pco", "pco"), ("bytes", "pco")]),
                  "for the closure-based methods (transform, to) the closure records the indices it is called with: after a version bump they must cover 0..len, "
                  "without one none may lie below min(max_from, stored length); the recorded computed version must change with the bump and survive re-import")
    return r


@register("C18")
def c18(prop, tier, seed):
    known_ids = vlib.all_known_devs()
    dev = "{" + ", ".join('"%s"' % d for d in sorted(known_ids & {"D20"})) + "}"
    base = f"SPECIFICATION Spec\nCONSTANTS\n  Depth = {q(tier, 7, 9)}\n  MaxHandles = 3\n"
    tail = "VIEW HView\nCONSTRAINT DepthOK\nCHECK_DEADLOCK FALSE\n"
    d = case_run("MCOpenLock", base + "  Dev = {}\n" + tail + "INVARIANT RefusedChangesNothing\nINVARIANT HeldWhileHandles\nINVARIANT NoUserAfterRelease\n")
    a = case_run("MCOpenLock", base + f"  Dev = {dev}\n" + tail + "INVARIANT RefusedChangesNothing\nINVARIANT HeldWhileHandles\nINVARIANT Emit\n")
    hs = [json.loads(x) for x in a["emitted"]["REPLAY"]]
    keyed = {tuple(json.dumps(s, sort_keys=True) for s in p): p for p in hs}
    pref = set()
    for kx in keyed:
        for i in range(1, len(kx)):
            pref.add(kx[:i])
    mx = [p for kx, p in keyed.items() if kx not in pref]
    wd = vlib.scratch_dir("open")
    try:
        nd = os.path.join(wd, "h.ndjson")
        vlib.write_ndjson(nd, mx)
        r = vlib.run_vh(["openreplay", "--in", nd], timeout=1200)
    finally:
        shutil.rmtree(wd, ignore_errors=True)
    known_lines, violations = [], [dict(v, property=prop, spec="OpenLock", steps_full=mx[v["behaviour"]]) for v in r["violations"]]
    for kk in r["known"]:
        if kk["dev"] in known_ids:
            known_lines.append("%s %s" % (kk["dev"], " ".join(kk["history"] or [])))
        else:
            violations.append({"property": prop, "kind": "unlisted-deviation", "dev": kk["dev"], "history": kk["history"]})
    cov = {"states": d["distinct"] + a["distinct"], "transitions": d["generated"] + a["generated"], "traces_validated_against_impl": r["behaviours"],
           "samples": [[("%s(%s,%s)=%s" % (s["op"], s.get("who"), s.get("min_len"), s.get("res"))) if s["op"] == "open" else s["op"] for s in max(mx, key=len)]],
           "evaluations": r["steps"], "distinct_nontrivial": r["distinct_nontrivial"],
           "rule": "every sequence (to the depth) of open by another thread / by a child process with min_len below and above the file length, clone, write+flush, "
                   "run_bg, the two halves of Drop (strong-count test / decrement, interleaved freely) and task end is enumerated by TLC and replayed with real threads, "
                   "a real child process and the drop_checked pause point; a refused open must leave data/regions lengths and the first bytes unchanged, a successful "
                   "one must see the flushed data, and a released directory must have no running task of the old holder; non-trivial = at least two opens",
           "child_process_opens": r["child_process_opens"], "exhaustive": True, "checker_cmd": "tlc MCOpenLock.tla ; vh openreplay"}
    return {"level": "model_checking", "coverage": cov,
            "assumptions": ["Linux flock semantics as used by File::try_lock; one child process of the harness binary", "readers and region-derived references are modelled as handles"],
            "violations": violations, "known": known_lines}


def merge(results):
    out = results[0]
    for r in results[1:]:
        for k in ("states", "transitions", "traces_validated_against_impl", "evaluations", "distinct_nontrivial"):
            out["coverage"][k] += r["coverage"][k]
        out["coverage"]["samples"] += r["coverage"]["samples"]
        out["coverage"]["runs"] += r["coverage"]["runs"]
        out["coverage"]["rule"] += " || " + r["coverage"]["rule"]
        for k, v in r["coverage"].get("deviations_taken", {}).items():
            out["coverage"]["deviations_taken"][k] = out["coverage"]["deviations_taken"].get(k, 0) + v
        out["violations"] += r["violations"]
        out["known"] += [k for k in r["known"] if k not in out["known"]]
        out["assumptions"] += [a for a in r["assumptions"] if a not in out["assumptions"]]
    return out


@register("C13")
def c13(prop, tier, seed):
    # every refusal in the alphabet, in every state: rawdb (write beyond end, truncate beyond length, rename onto an
    # existing name, remove of a referenced region) and vecdb (update beyond end, checked push at a wrong index,
    # rollback without a usable record); the continuation after each refusal is part of the behaviour
    raw = raw_run(prop, tier, seed, [
        dict(names=["a", "b"], sizes=[1, 5], maxfile=24, depth=q(tier, 5, 6),
             ops=["create", "write", "truncate", "rename", "remove", "hold", "flush", "reopen"],
             wkinds=["append", "oob", "tw1"], histk=q(tier, 1, 2), scales=[2048]),
    ], "non-trivial = length >= 3 containing a relocation, an adjacent-hole growth or a reopen", RAW_ASSUME)
    vec = vec_run(prop, tier, seed, [
        dict(kind="raw", K=1, PP=2, MaxLen=2, MaxStamp=2, Depth=q(tier, 6, 7), histk=q(tier, 2, 3),
             ops=["push", "cpush", "truncate", "update", "delete", "commit", "rollback", "rollback_before", "fault", "reimport"],
             replays=[("bytes", "u32", 1), ("zerocopy", "u32", 1)]),
        dict(kind="cmp", K=1, PP=2, MaxLen=3, MaxStamp=2, Depth=q(tier, 6, 7), histk=q(tier, 2, 3),
             ops=["push", "cpush", "truncate", "commit", "rollback", "rollback_before", "fault", "reimport"],
             replays=[("pco", "u32", 1), ("lz4", "u32", 1), ("zstd", "u32", 1)]),
        # refused rollbacks while edits are pending (no usable record for the current stamp), then commit / rollback again
        dict(kind="raw", K=2, PP=2, MaxLen=2, MaxStamp=3, Depth=q(tier, 8, 9), histk=q(tier, 3, 4),
             ops=["push", "commit", "rollback", "rb_refused", "fault"], replays=[("bytes", "u32", 1)]),
        dict(kind="cmp", K=2, PP=2, MaxLen=2, MaxStamp=3, Depth=q(tier, 8, 9), histk=q(tier, 3, 4),
             ops=["push", "commit", "rollback", "rb_refused", "fault"], replays=[("pco", "u32", 1)]),
    ], "non-trivial = length >= 3 and at least one further operation after a refusal-prone call (rollback, re-import)", VEC_ASSUME)
    return merge([raw, vec])


def replay(prop, path):
    v = json.load(open(path))
    if v.get("spec") == "Vec" and v.get("steps_full"):
        wd = vlib.scratch_dir("replay")
        try:
            nd = os.path.join(wd, "one.ndjson")
            vlib.write_ndjson(nd, [v["steps_full"]])
            r = vlib.run_vh(["vecreplay", "--in", nd, "--format", v["format"], "--type", v["type"], "--k", str(v["K"]),
                             "--block", str(v["block"])])
        finally:
            shutil.rmtree(wd, ignore_errors=True)
        if r["violations"]:
            print(json.dumps(r["violations"][0], indent=1))
            print(f"VIOLATION property={prop} replay={path}")
            return 1
        print("replay: no violation")
        return 0
    if v.get("spec") == "RawDb-crash" and v.get("steps_full"):
        wd = vlib.scratch_dir("replay")
        try:
            nd = os.path.join(wd, "one.ndjson")
            vlib.write_ndjson(nd, [v["steps_full"]])
            r = vlib.run_vh(["crashreplay", "--in", nd, "--max-choices", "100000", "--prop", prop])
        finally:
            shutil.rmtree(wd, ignore_errors=True)
        if r["violations"]:
            print(json.dumps(r["violations"][0], indent=1))
            print(f"VIOLATION property={prop} replay={path}")
            return 1
        print("replay: no violation")
        return 0
    if v.get("spec") == "Import" and v.get("steps_full"):
        wd = vlib.scratch_dir("replay")
        try:
            nd = os.path.join(wd, "one.ndjson")
            vlib.write_ndjson(nd, [v["steps_full"]])
            r = vlib.run_vh(["importreplay", "--in", nd])
        finally:
            shutil.rmtree(wd, ignore_errors=True)
        if r["violations"]:
            print(json.dumps(r["violations"][0], indent=1))
            print(f"VIOLATION property={prop} replay={path}")
            return 1
        print("replay: no violation")
        return 0
    if v.get("spec") == "RawDb" and v.get("steps_full"):
        wd = vlib.scratch_dir("replay")
        try:
            nd = os.path.join(wd, "one.ndjson")
            vlib.write_ndjson(nd, [v["steps_full"]])
            r = vlib.run_vh(["rawreplay", "--in", nd, "--scale", str(v["scale"]), "--p", str(v["P"]), "--init-len", str(v.get("initlen", 0))])
        finally:
            shutil.rmtree(wd, ignore_errors=True)
        if r["violations"]:
            print(json.dumps(r["violations"][0], indent=1))
            print(f"VIOLATION property={prop} replay={path}")
            return 1
        print("replay: no violation")
        return 0
    if v.get("spec") == "RawConc" and v.get("steps_full"):
        wd = vlib.scratch_dir("replay")
        try:
            nd = os.path.join(wd, "one.ndjson")
            vlib.write_ndjson(nd, [v["steps_full"]])
            r = vlib.run_vh(["concmodel", "--in", nd, "--setup", v["setup"], "--prelen", str(v.get("prelen", 0)), "--init-len", str(v.get("initlen", 1)),
                             "--threads", str(v.get("workers", 2) + 1)])
        finally:
            shutil.rmtree(wd, ignore_errors=True)
        if r["violations"]:
            print(json.dumps(r["violations"][0], indent=1))
            print(f"VIOLATION property={prop} replay={path}")
            return 1
        print("replay: no violation")
        return 0
    if v.get("spec") == "VecConc" and v.get("steps_full"):
        wd = vlib.scratch_dir("replay")
        try:
            nd = os.path.join(wd, "one.ndjson")
            vlib.write_ndjson(nd, [v["steps_full"]])
            r = vlib.run_vh(["vecconc", "--in", nd, "--format", v["format"], "--prelen", str(v["prelen"]), "--pp", str(v.get("pp", 4)), "--readers", str(v.get("readers", 1))])
        finally:
            shutil.rmtree(wd, ignore_errors=True)
        if r["violations"]:
            print(json.dumps(r["violations"][0], indent=1))
            print(f"VIOLATION property={prop} replay={path}")
            return 1
        print("replay: no violation")
        return 0
    if v.get("spec") == "vecfree":
        r = vlib.run_vh(["vecfree", "--format", v["format"], "--schedules", str(v["schedules"]), "--seed", str(v["run_seed"])])
        if r["violations"]:
            print(json.dumps(r["violations"][0], indent=1))
            print(f"VIOLATION property={prop} replay={path}")
            return 1
        print("replay: no violation")
        return 0
    if v.get("spec") == "concreplay" and v.get("args") is not None:
        # the seeded schedule is re-run (lock-granular order is the seed's; timing inside unlocked code is not controlled)
        r = vlib.run_vh(["concreplay", "--schedules", str(v["schedules"]), "--seed", str(v["run_seed"])] + v["args"])
        if r["violations"]:
            print(json.dumps(r["violations"][0], indent=1))
            print(f"VIOLATION property={prop} replay={path}")
            return 1
        print("replay: no violation")
        return 0
    print("replay kind not supported for this file", flush=True)
    return 2
