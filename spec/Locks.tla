------------------------------- MODULE Locks ------------------------------
(***************************************************************************)
(* C11: no interleaving of library calls from different threads deadlocks. *)
(*                                                                         *)
(* Threads run lock programs: sequences of acquire(lock, mode) / release   *)
(* (lock).  The programs are NOT written by hand: they are mined on every  *)
(* run from the real code through the lock tap (harness `lockmine`) and    *)
(* supplied in the generated module LocksProgs (constant Progs); steps     *)
(* that cannot take part in a deadlock (a read lock taken and released     *)
(* while holding nothing else) are removed by the generator.               *)
(*                                                                         *)
(* Lock semantics are parking_lot's: a read request is granted only if no  *)
(* writer holds the lock AND no writer is queued (task-fair, a queued      *)
(* writer blocks new readers); a write request needs the lock free; the    *)
(* queue is served from its head.                                          *)
(*                                                                         *)
(* Instances: "meta:t" / "pages:t" is the thread's own target region /     *)
(* vector, "meta:o" the other one; Variant maps each thread's target to    *)
(* region 1 or 2 (so two threads work on the same or on distinct regions). *)
(***************************************************************************)
EXTENDS Naturals, Sequences, FiniteSets, TLC, LocksProgs

CONSTANT NT          \* number of threads (2 or 3)

VARIABLES pick, variant, pc, held, waitq
vars == <<pick, variant, pc, held, waitq>>

Threads == 1..NT

Resolve(t, l) ==
  LET own == IF variant[t] = 1 THEN "1" ELSE "2"
      oth == IF variant[t] = 1 THEN "2" ELSE "1"
  IN CASE l = "meta:t" -> "meta#" \o own
       [] l = "meta:o" -> "meta#" \o oth
       [] l = "pages:t" -> "pages#" \o own
       [] l = "meta:x" -> "metax#" \o ToString(t)
       [] OTHER -> l

Prog(t) == Progs[pick[t]]
Done(t) == pc[t] > Len(Prog(t))
Instr(t) == Prog(t)[pc[t]]

Holders(L) == {h \in held : h[1] = L}
WriterHolds(L) == \E h \in Holders(L) : h[3]
Queued(t) == \E L \in DOMAIN waitq : \E i \in 1..Len(waitq[L]) : waitq[L][i][1] = t
Queue(L) == IF L \in DOMAIN waitq THEN waitq[L] ELSE <<>>
WriterQueued(L) == \E i \in 1..Len(Queue(L)) : Queue(L)[i][2]

Compatible(L, w) == IF w THEN Holders(L) = {} ELSE ~WriterHolds(L)

\* non-decreasing choice of programs (unordered combinations), first thread on variant 1
\* Combos (from LocksProgs): << >> = every combination; otherwise the candidate combinations <<pick, variant>> that a
\* static necessary condition for a deadlocked state (computed by the generator) could not rule out
Init == /\ IF Combos = <<>>
           THEN /\ pick \in {f \in [Threads -> 1..Len(Progs)] : \A t \in 1..(NT - 1) : f[t] <= f[t + 1]}
                /\ variant \in {f \in [Threads -> {1, 2}] : f[1] = 1}
           ELSE \E i \in 1..Len(Combos) : pick = Combos[i][1] /\ variant = Combos[i][2]
        /\ pc = [t \in Threads |-> 1]
        /\ held = {}
        /\ waitq = [L \in {} |-> <<>>]

SetQueue(L, q) == [x \in (DOMAIN waitq) \cup {L} |-> IF x = L THEN q ELSE waitq[x]]

\* first attempt of an acquisition: granted at once, or the thread joins the queue
Request(t) ==
  /\ ~Done(t) /\ ~Queued(t) /\ Instr(t).k = "acq"
  /\ LET L == Resolve(t, Instr(t).l) w == Instr(t).w IN
     IF Compatible(L, w) /\ Queue(L) = <<>>
     THEN /\ held' = held \cup {<<L, t, w>>} /\ pc' = [pc EXCEPT ![t] = @ + 1] /\ UNCHANGED waitq
     ELSE /\ waitq' = SetQueue(L, Append(Queue(L), <<t, w>>)) /\ UNCHANGED <<held, pc>>
  /\ UNCHANGED <<pick, variant>>

\* the queue head is served when compatible
Grant(t) ==
  /\ \E L \in DOMAIN waitq :
       /\ Len(waitq[L]) > 0 /\ waitq[L][1][1] = t
       /\ Compatible(L, waitq[L][1][2])
       /\ held' = held \cup {<<L, t, waitq[L][1][2]>>}
       /\ waitq' = SetQueue(L, Tail(waitq[L]))
       /\ pc' = [pc EXCEPT ![t] = @ + 1]
  /\ UNCHANGED <<pick, variant>>

Release(t) ==
  /\ ~Done(t) /\ Instr(t).k = "rel"
  /\ LET L == Resolve(t, Instr(t).l) IN
     /\ held' = {h \in held : ~(h[1] = L /\ h[2] = t)}
     /\ pc' = [pc EXCEPT ![t] = @ + 1]
  /\ UNCHANGED <<pick, variant, waitq>>

Next == \E t \in Threads : Request(t) \/ Grant(t) \/ Release(t)
Spec == Init /\ [][Next]_vars

AllDone == \A t \in Threads : Done(t)
NoDeadlock == AllDone \/ ENABLED Next

\* always TRUE: reports every deadlocked state and lets TLC continue (used to enumerate all deadlock classes)
DeadlockReport == (~AllDone /\ ~ENABLED Next) => PrintT(<<"DEADLOCK", pick, variant, pc>>)

\* restriction of the initial states to one combination (generated per replayed class)
\* the documented acquisition order: layout -> regions -> mmap -> file -> meta (pages outside them)
Rank(L) == CASE L = "layout" -> 1 [] L = "regions" -> 2 [] L = "mmap" -> 3 [] L = "file" -> 4 [] OTHER -> 5
==========================================================================
