------------------------------- MODULE Vec -------------------------------
(***************************************************************************)
(* Implementation-shaped specification of one vecdb stored vector          *)
(* (crates/vecdb: ReadWriteBaseVec + ReadWriteRawVec / ReadWriteCompressed *)
(* Vec), together with the reference model the properties C03 C04 C07 C13  *)
(* C16 C20 talk about.                                                     *)
(*                                                                         *)
(*  v : the implementation state, one record, fields named after the code  *)
(*  g : the ghost / reference state (a list of optional values, a stamp,   *)
(*      the stack of committed states, bookkeeping for retention)          *)
(*                                                                         *)
(* Every action is "what the code does" (anchors in comments).  Where the  *)
(* code is known to deviate from the property, the branch is guarded by a  *)
(* deviation id in the constant set Dev; with the id absent the branch     *)
(* behaves as the intended design.  A behaviour that took a deviation is   *)
(* tagged in g.dev; property invariants are required on untagged           *)
(* behaviours, and tagged ones are reported as known findings.             *)
(***************************************************************************)
EXTENDS Naturals, Sequences, FiniteSets, TLC, SequencesExt, FiniteSetsExt

CONSTANTS
  Kind,        \* "raw" | "cmp"
  K,           \* saved_stamped_changes (retention)
  PP,          \* values per page (compressed), model units
  MaxLen,      \* bound on vector length
  MaxStamp,    \* stamps 1..MaxStamp
  Depth,       \* bound on the number of operations
  Dev,         \* set of deviation ids enabled (code as it is); {} = intended design
  Ops,         \* set of operation names enabled in this configuration
  HistK        \* number of most recent operations that distinguish states (0 = none; larger = more paths explored)

VARIABLES v, g, n, hist

vars == <<v, g, n, hist>>

Raw == Kind = "raw"
Nil == 0                      \* "no value" (deleted slot / absent)
Junk == 99                    \* a value read from outside valid data

EmptyFn == [i \in {} |-> 0]
Min2(a, b) == IF a < b THEN a ELSE b
Max2(a, b) == IF a > b THEN a ELSE b
Monus(a, b) == IF a > b THEN a - b ELSE 0

FnSet(f, k, x) == [i \in (DOMAIN f) \cup {k} |-> IF i = k THEN x ELSE f[i]]
FnBelow(f, k) == [i \in {j \in DOMAIN f : j < k} |-> f[i]]
FnDel(f, k) == [i \in (DOMAIN f) \ {k} |-> f[i]]

(***************************************************************************)
(* Page index helpers (compressed).  A page entry is [n |-> count, raw].   *)
(***************************************************************************)
PagesLen(ps) == IF ps = <<>> THEN 0 ELSE (Len(ps) - 1) * PP + ps[Len(ps)].n

\* chunk a value sequence into page entries: full chunks compressed, last partial raw
RECURSIVE Chunk(_)
Chunk(k) == IF k = 0 THEN <<>>
            ELSE IF k >= PP THEN <<[n |-> PP, raw |-> FALSE]>> \o Chunk(k - PP)
            ELSE <<[n |-> k, raw |-> TRUE]>>

WellFormedPages(ps) ==
  /\ \A i \in 1..Len(ps) : ps[i].n >= 1 /\ ps[i].n <= PP
  /\ \A i \in 1..(Len(ps) - 1) : ps[i].n = PP /\ ~ps[i].raw

(***************************************************************************)
(* Initial state = a freshly created, empty vector.                        *)
(***************************************************************************)
V0 == [ cells |-> <<>>,        \* physical element cells of the data region (never shrinks: stale tail stays)
        dlen |-> 0,            \* data-region length in elements (raw: real_stored_len)
        pages |-> <<>>,        \* in-memory page index (cmp)
        dpages |-> <<>>,       \* page index as stored in the pages region (cmp)
        chg |-> -1,            \* Pages.change_at (-1 = None)
        storedLen |-> 0, pushed |-> <<>>, prevPushed |-> <<>>, prevStoredLen |-> 0,
        upd |-> EmptyFn, prevUpd |-> EmptyFn, holes |-> {}, prevHoles |-> {},
        hsh |-> FALSE,         \* has_stored_holes
        dholesEx |-> FALSE, dholes |-> {},   \* the _holes region
        stamp |-> 0, dstamp |-> 0, hdrMod |-> FALSE,
        changes |-> {},        \* change directory: set of records, field f = file name (stamp)
        dirEx |-> FALSE,       \* the change directory exists (created by the first commit, removed by reset)
        oob |-> FALSE,         \* some read touched cells at or beyond the region length
        res |-> "ok", dead |-> FALSE ]

G0 == [ vals |-> <<>>, stamp |-> 0,
        committed |-> << [stamp |-> 0, vals |-> <<>>] >>,
        avail |-> 0,           \* rollbacks the property guarantees from here
        pure |-> TRUE,         \* no rollback since creation/reset (no stale records around)
        faulted |-> FALSE,     \* a change-directory fault was injected since the last commit
        consec |-> 0,          \* consecutive successful rollbacks
        clean |-> TRUE,        \* contents equal the last committed state
        sw |-> FALSE,          \* the current stamp was set by a stamped write WITHOUT a change record
        dev |-> {},            \* deviations taken by this behaviour
        must |-> "ok",         \* what the property demands of the last call: "ok" | "err" | "either"
        last |-> <<>>,         \* the HistK most recent operations (forces TLC to keep histories apart)
        nxt |-> 1 ]            \* next fresh value

Init == v = V0 /\ g = G0 /\ n = 0 /\ hist = <<>>

(***************************************************************************)
(* Reading the implementation state (get_any_or_read_at and friends).      *)
(***************************************************************************)
VLen(s) == s.storedLen + Len(s.pushed)
RealLen(s) == IF Raw THEN s.dlen ELSE PagesLen(s.pages)

\* value of physical cell i (0-based); Junk outside what was ever written
Cell(s, i) == IF i < Len(s.cells) THEN s.cells[i + 1] ELSE Junk
\* does reading stored index i touch invalid data
CellOob(s, i) == i >= s.dlen

Get(s, i) ==
  IF Raw /\ i \in s.holes THEN Nil
  ELSE IF i >= s.storedLen
       THEN (IF i - s.storedLen < Len(s.pushed) THEN s.pushed[i - s.storedLen + 1] ELSE Nil)
       ELSE IF Raw /\ i \in DOMAIN s.upd THEN s.upd[i]
       ELSE IF ~Raw /\ i >= PagesLen(s.pages) THEN Junk
       ELSE Cell(s, i)

View(s) == [i \in 1..VLen(s) |-> Get(s, i - 1)]

\* stored indices a full read of the read-write vector dereferences
DiskReads(s) == {i \in 0..(s.storedLen - 1) : ~(Raw /\ (i \in s.holes \/ i \in DOMAIN s.upd))}
\* a read-only clone reads every index below the shared stored_len from disk
RODiskReads(s) == 0..(s.storedLen - 1)

Obs(s) == [len |-> VLen(s), view |-> View(s), holes |-> s.holes, stamp |-> s.stamp]
GObs(gg) == [len |-> Len(gg.vals), view |-> gg.vals,
             holes |-> {i \in 0..(Len(gg.vals) - 1) : gg.vals[i + 1] = Nil}, stamp |-> gg.stamp]

(***************************************************************************)
(* Header                                                                  *)
(***************************************************************************)
SetStamp(s, st) == IF s.stamp = st THEN s ELSE [s EXCEPT !.stamp = st, !.hdrMod = TRUE]
WriteHeader(s) == IF s.hdrMod THEN [s EXCEPT !.dstamp = s.stamp, !.hdrMod = FALSE] ELSE s

(***************************************************************************)
(* write()  — raw:  variants/raw/inner/read_write/any_stored_vec.rs:50-143 *)
(***************************************************************************)
\* overwrite cells [at, at+Len(xs)) (0-based), extending the physical sequence as needed
PutCells(cells, at, xs) ==
  LET newLen == Max2(Len(cells), at + Len(xs))
  IN [i \in 1..newLen |-> IF i > at /\ i <= at + Len(xs) THEN xs[i - at]
                          ELSE IF i <= Len(cells) THEN cells[i] ELSE Junk]

\* expanded path: per key ascending region.write_at; fails at the first key beyond the region length
RECURSIVE RawWrite(_, _)
RECURSIVE WriteAtEach(_, _, _)
WriteAtEach(s, keys, f) ==
  IF keys = {} THEN s
  ELSE LET k == Min(keys) IN
       IF k > s.dlen THEN [s EXCEPT !.res = "err"]
       ELSE WriteAtEach([s EXCEPT !.cells = PutCells(s.cells, k, <<f[k]>>),
                                  !.dlen = Max2(s.dlen, k + 1)], keys \ {k}, f)

RawWrite(s0, D) ==
  LET s == WriteHeader(s0)
      real == s.dlen
      truncated == s.storedLen < real
      expanded == s.storedLen > real
      hasNew == s.pushed # <<>>
      hasUpd == DOMAIN s.upd # {}
      hasHoles == s.holes # {}
      hadHoles == s.hsh
  IN
  IF ~truncated /\ ~expanded /\ ~hasNew /\ ~hasUpd /\ ~hasHoles /\ ~hadHoles
  THEN [s EXCEPT !.res = "false"]
  ELSE IF expanded /\ ~("D3" \in D)
  THEN \* intended design: materialise the rolled-back tail first, then continue as a normal write
       RawWrite([s EXCEPT !.cells = PutCells(s.cells, s.dlen,
                                      [j \in 1..(s.storedLen - s.dlen) |->
                                         IF (s.dlen + j - 1) \in DOMAIN s.upd THEN s.upd[s.dlen + j - 1] ELSE Junk]),
                          !.dlen = s.storedLen,
                          !.upd = FnBelow(s.upd, s.dlen)], D)
  ELSE
    LET \* step 1: pushed values / truncation
        s1 == IF hasNew
              THEN IF s.storedLen > s.dlen
                   THEN [s EXCEPT !.pushed = <<>>, !.res = "err"]      \* truncate_write beyond the region length; buffer already taken
                   ELSE [s EXCEPT !.cells = PutCells(s.cells, s.storedLen, s.pushed),
                                  !.dlen = s.storedLen + Len(s.pushed),
                                  !.storedLen = s.storedLen + Len(s.pushed),
                                  !.pushed = <<>>, !.res = "ok"]
              ELSE IF truncated THEN [s EXCEPT !.dlen = s.storedLen, !.res = "ok"]
              ELSE [s EXCEPT !.res = "ok"]
        \* step 2: updated values
        s2 == IF s1.res # "ok" \/ ~hasUpd THEN s1
              ELSE IF expanded
                   THEN WriteAtEach([s1 EXCEPT !.upd = EmptyFn], DOMAIN s1.upd, s1.upd)
                   ELSE IF \E k \in DOMAIN s1.upd : k >= s1.dlen
                        THEN [s1 EXCEPT !.upd = EmptyFn, !.res = "panic"]   \* batch_write_each assert
                        ELSE [s1 EXCEPT !.upd = EmptyFn,
                                        !.cells = [i \in 1..Len(s1.cells) |->
                                                    IF (i - 1) \in DOMAIN s1.upd THEN s1.upd[i - 1] ELSE s1.cells[i]]]
        \* step 3: holes region
        s3 == IF s2.res # "ok" THEN s2
              ELSE IF hasHoles THEN [s2 EXCEPT !.hsh = TRUE, !.dholesEx = TRUE, !.dholes = s2.holes]
              ELSE IF hadHoles THEN [s2 EXCEPT !.hsh = FALSE, !.dholesEx = FALSE, !.dholes = {}]
              ELSE s2
    IN s3

(***************************************************************************)
(* write() — compressed: variants/compressed/inner/read_write/             *)
(* any_stored_vec.rs:51-183, pages.rs                                      *)
(***************************************************************************)
\* Pages::flush: rewrite the pages region from change_at on
PagesFlush(s) ==
  IF s.chg < 0 THEN s
  ELSE IF s.chg > Len(s.dpages) THEN [s EXCEPT !.res = "err", !.chg = -1]
  ELSE [s EXCEPT !.dpages = SubSeq(s.dpages, 1, s.chg) \o SubSeq(s.pages, s.chg + 1, Len(s.pages)),
                 !.chg = -1]

ChgMin(s, k) == IF s.chg < 0 \/ s.chg > k THEN k ELSE s.chg

CmpWrite(s0, D) ==
  LET s == WriteHeader(s0)
      real == PagesLen(s.pages)
      np == Len(s.pushed)
      sp == s.storedLen \div PP
      pl == s.storedLen % PP
  IN
  IF s.storedLen > real THEN [s EXCEPT !.res = "err"]
  ELSE IF np = 0 /\ s.storedLen = real
       THEN IF s.chg >= 0 /\ ~("D6" \in D)
            THEN [PagesFlush(s) EXCEPT !.res = "ok", !.dlen = real]   \* intended: a pending index change is still flushed, region cut
            ELSE [s EXCEPT !.res = "false"]
  ELSE IF sp > Len(s.pages) THEN [s EXCEPT !.res = "err"]
  ELSE
    LET hasPartial == sp < Len(s.pages) /\ pl # 0
        page == IF sp < Len(s.pages) THEN s.pages[sp + 1] ELSE [n |-> 0, raw |-> TRUE]
        fast == hasPartial /\ page.raw /\ pl = page.n /\ pl + np < PP
        base == sp * PP
        values == (IF hasPartial THEN [i \in 1..pl |-> Cell(s, base + i - 1)] ELSE <<>>) \o s.pushed
        newPages == IF fast THEN <<[n |-> pl + np, raw |-> TRUE]>> ELSE Chunk(Len(values))
        s1 == [s EXCEPT !.cells = PutCells(s.cells, base, values),
                        !.dlen = base + Len(values),
                        !.pages = SubSeq(s.pages, 1, sp) \o newPages,
                        !.chg = ChgMin(s, sp),
                        !.storedLen = s.storedLen + np,
                        !.pushed = <<>>, !.res = "ok"]
    IN PagesFlush(s1)

Write(s, D) == IF Raw THEN RawWrite(s, D) ELSE CmpWrite(s, D)

(***************************************************************************)
(* Edits                                                                   *)
(***************************************************************************)
TruncateDirtyAt(s, idx) ==
  [s EXCEPT !.holes = {h \in s.holes : h < idx}, !.upd = FnBelow(s.upd, idx)]

\* base/read_write.rs:196-214 truncate_pushed + writable.rs truncate_if_needed_at
Truncate(s0, idx) ==
  LET s == IF Raw THEN TruncateDirtyAt(s0, idx) ELSE s0 IN
  IF idx >= VLen(s) THEN s
  ELSE IF idx <= s.storedLen
       THEN [s EXCEPT !.pushed = <<>>, !.storedLen = IF idx < s.storedLen THEN idx ELSE s.storedLen]
       ELSE [s EXCEPT !.pushed = SubSeq(s.pushed, 1, idx - s.storedLen)]

\* raw/mod.rs:306-328
UpdateAt(s, idx, x, D) ==
  IF idx >= s.storedLen
  THEN IF idx - s.storedLen < Len(s.pushed)
       THEN [s EXCEPT !.pushed = [s.pushed EXCEPT ![idx - s.storedLen + 1] = x],
                      !.holes = IF "D2" \in D THEN s.holes ELSE s.holes \ {idx},
                      !.res = "ok"]
       ELSE [s EXCEPT !.res = "err"]
  ELSE [s EXCEPT !.holes = s.holes \ {idx}, !.upd = FnSet(s.upd, idx, x), !.res = "ok"]

UncheckedDelete(s, idx) == [s EXCEPT !.upd = FnDel(s.upd, idx), !.holes = s.holes \cup {idx}]
DeleteAt(s, idx) == IF idx < VLen(s) THEN UncheckedDelete(s, idx) ELSE s

(***************************************************************************)
(* Change records: base/rollback.rs, raw/.../rollback.rs, cmp/.../rollback *)
(***************************************************************************)
\* collect_stored_range as used by serialize_changes
TruncVals(s) ==
  IF Raw
  THEN [j \in 1..Monus(s.prevStoredLen, s.storedLen) |->
          LET i == s.storedLen + j - 1 IN
          IF i \in DOMAIN s.prevUpd THEN s.prevUpd[i] ELSE Cell(s, i)]
  ELSE LET to == Min2(s.prevStoredLen, PagesLen(s.pages)) IN
       [j \in 1..Monus(to, s.storedLen) |-> Cell(s, s.storedLen + j - 1)]

ModKeys(s) == (DOMAIN s.upd) \cup (DOMAIN s.prevUpd)

\* stored indices dereferenced while building the record
RecordReads(s) ==
  IF Raw
  THEN {i \in s.storedLen..(s.prevStoredLen - 1) : i \notin DOMAIN s.prevUpd}
       \cup {i \in ModKeys(s) : i \notin DOMAIN s.prevUpd}
  ELSE {}

MakeRecord(s, st) ==
  [ f |-> st, bad |-> FALSE,
    stamp |-> s.stamp, prevStoredLen |-> s.prevStoredLen,
    truncCount |-> Monus(s.prevStoredLen, s.storedLen),
    truncVals |-> TruncVals(s),
    prevPushed |-> s.prevPushed,
    mods |-> IF Raw THEN [i \in ModKeys(s) |-> IF i \in DOMAIN s.prevUpd THEN s.prevUpd[i] ELSE Cell(s, i)]
             ELSE EmptyFn,
    prevHoles |-> IF Raw THEN s.prevHoles ELSE {} ]

\* save_change_file: drop records >= st, prune the oldest down to K-1, add st
SaveChange(s, rec) ==
  LET older == {r \in s.changes : r.f < rec.f}
      RECURSIVE Prune(_)
      Prune(S) == IF Cardinality(S) <= K - 1 THEN S
                  ELSE Prune(S \ {CHOOSE r \in S : \A q \in S : r.f <= q.f})
  IN [s EXCEPT !.changes = Prune(older) \cup {rec}, !.dirEx = TRUE]

\* stamped_write_with_changes
Commit(s, st, D) ==
  IF K = 0 THEN Write(SetStamp(s, st), D)
  ELSE
    LET rec == MakeRecord(s, st)
        oobNow == \E i \in RecordReads(s) : CellOob(s, i)
        s1 == SaveChange([s EXCEPT !.oob = s.oob \/ oobNow], rec)
        s2 == Write(SetStamp(s1, st), D)
    IN IF s2.res \in {"err", "panic"} THEN s2
       ELSE LET s3 == [s2 EXCEPT !.prevStoredLen = s2.storedLen, !.prevPushed = <<>>, !.res = "ok"]
            IN IF Raw THEN [s3 EXCEPT !.prevHoles = s3.holes, !.prevUpd = EmptyFn] ELSE s3

HasRecord(s) == \E r \in s.changes : r.f = s.stamp
TheRecord(s) == CHOOSE r \in s.changes : r.f = s.stamp

\* apply each (idx,val) of the record through update_at, ascending; stops at the first failure
RECURSIVE ApplyMods(_, _, _, _)
ApplyMods(s, keys, f, D) ==
  IF keys = {} THEN s
  ELSE LET k == Min(keys)
           s1 == UpdateAt(s, k, f[k], D)
       IN IF s1.res = "err" THEN s1 ELSE ApplyMods(s1, keys \ {k}, f, D)

RawUndo(s, r, D) ==
  LET s1 == IF r.prevStoredLen < s.storedLen THEN TruncateDirtyAt(s, r.prevStoredLen) ELSE s
      s2 == [SetStamp(s1, r.stamp) EXCEPT !.storedLen = r.prevStoredLen,
                                          !.pushed = r.prevPushed, !.prevPushed = r.prevPushed]
      tstart == r.prevStoredLen - r.truncCount
      s3 == [s2 EXCEPT !.upd = [i \in (DOMAIN s2.upd) \cup {tstart + j - 1 : j \in 1..Len(r.truncVals)} |->
                                   IF i >= tstart /\ i < tstart + Len(r.truncVals)
                                   THEN r.truncVals[i - tstart + 1] ELSE s2.upd[i]]]
      s4 == ApplyMods([s3 EXCEPT !.res = "ok"], DOMAIN r.mods, r.mods, D)
  IN IF s4.res = "err" THEN s4
     ELSE LET s5 == IF r.prevHoles # {} \/ s4.holes # {} \/ s4.prevHoles # {}
                    THEN [s4 EXCEPT !.holes = r.prevHoles, !.prevHoles = r.prevHoles] ELSE s4
              s6 == [s5 EXCEPT !.prevUpd = s5.upd]
          IN IF "D13" \in D THEN s6 ELSE [s6 EXCEPT !.prevStoredLen = s6.storedLen]

CmpUndo(s, r, D) ==
  LET s1 == SetStamp(s, r.stamp)
      tstart == r.prevStoredLen - r.truncCount
      real == PagesLen(s1.pages)
      s2 == IF "D4" \in D
            THEN \* the code: cmp/.../rollback.rs:25-44
                 IF Len(r.truncVals) = 0
                 THEN [s1 EXCEPT !.storedLen = r.prevStoredLen, !.pushed = r.prevPushed, !.prevPushed = r.prevPushed]
                 ELSE LET agree == Min2(tstart, real)
                          buf == r.truncVals \o r.prevPushed
                      IN [s1 EXCEPT !.storedLen = agree, !.pushed = buf, !.prevPushed = buf]
            ELSE \* intended: elements the record does not mention and the disk no longer holds stay buffered
                 LET agree == Min2(Min2(tstart, real), s1.storedLen)
                     keep == [j \in 1..(tstart - agree) |-> Get(s1, agree + j - 1)]
                     buf == keep \o r.truncVals \o r.prevPushed
                 IN [s1 EXCEPT !.storedLen = agree, !.pushed = buf, !.prevPushed = buf]
  IN IF "D13" \in D THEN [s2 EXCEPT !.res = "ok"]
     ELSE [s2 EXCEPT !.res = "ok", !.prevStoredLen = s2.storedLen]

\* WritableVec::rollback
Rollback(s, D) ==
  IF ~HasRecord(s) THEN [s EXCEPT !.res = "err"]
  ELSE LET r == TheRecord(s) IN
       IF r.bad \/ Len(r.truncVals) # r.truncCount THEN [s EXCEPT !.res = "err"]
       ELSE IF Raw THEN RawUndo(s, r, D) ELSE CmpUndo(s, r, D)

SaveRollbackState(s) ==
  LET s1 == [s EXCEPT !.prevStoredLen = s.storedLen, !.prevPushed = s.pushed] IN
  IF Raw THEN [s1 EXCEPT !.prevHoles = s1.holes, !.prevUpd = s1.upd] ELSE s1

\* traits/writable.rs:59-81 — files <= current stamp, newest first
RECURSIVE RbLoop(_, _, _, _)
RbLoop(s, files, target, D) ==
  IF files = {} THEN [s EXCEPT !.res = "ok"]
  ELSE LET f == Max(files) IN
       IF s.stamp < target THEN [s EXCEPT !.res = "ok"]
       ELSE IF f # s.stamp THEN [s EXCEPT !.res = "err"]
       ELSE LET s1 == Rollback(s, D) IN
            IF s1.res = "err" THEN s1 ELSE RbLoop(s1, files \ {f}, target, D)

RollbackBefore(s, target, D) ==
  IF ~s.dirEx THEN [s EXCEPT !.res = "err"]     \* find_rollback_files: read_dir of a directory that was never created
  ELSE
  LET files == {r.f : r \in {q \in s.changes : q.f <= s.stamp}}
      s1 == RbLoop(s, files, target, D)
  IN IF s1.res = "err" THEN s1 ELSE SaveRollbackState(s1)

(***************************************************************************)
(* reset, flush + re-import                                                *)
(***************************************************************************)
Reset(s0) ==
  LET s == IF Raw THEN [s0 EXCEPT !.holes = {}, !.prevHoles = {}, !.upd = EmptyFn, !.prevUpd = EmptyFn]
           ELSE [s0 EXCEPT !.pages = <<>>, !.chg = 0]
      s1 == Truncate(s, 0)
  IN [SetStamp(s1, 0) EXCEPT !.pushed = <<>>, !.prevPushed = <<>>, !.storedLen = 0, !.prevStoredLen = 0,
                              !.changes = {}, !.dirEx = FALSE, !.res = "ok"]

\* drop the in-memory object, import again from what is on disk (raw/mod.rs:78-121, cmp/mod.rs:78-96)
Reimport(s) ==
  LET real == IF Raw THEN s.dlen ELSE PagesLen(s.dpages) IN
  [s EXCEPT !.pages = s.dpages, !.chg = -1,
            !.storedLen = real, !.prevStoredLen = real, !.pushed = <<>>, !.prevPushed = <<>>,
            !.upd = EmptyFn, !.prevUpd = EmptyFn,
            !.holes = IF s.dholesEx THEN s.dholes ELSE {}, !.prevHoles = IF s.dholesEx THEN s.dholes ELSE {},
            !.hsh = s.dholesEx, !.stamp = s.dstamp, !.hdrMod = FALSE, !.res = "ok"]

FlushReimport(s, D) == LET s1 == Write(s, D) IN IF s1.res \in {"err", "panic"} THEN s1 ELSE Reimport(s1)

(***************************************************************************)
(* Ghost (reference) semantics                                             *)
(***************************************************************************)
GLen == Len(g.vals)
GHoles == {i \in 0..(GLen - 1) : g.vals[i + 1] = Nil}
Top(gg) == gg.committed[Len(gg.committed)]
Dirty(gg) == [gg EXCEPT !.clean = FALSE, !.consec = 0, !.must = "ok"]
Tag(gg, d) == [gg EXCEPT !.dev = gg.dev \cup d]

\* deviations observable right now: implementation view differs from the reference
Diverged == Obs(v) # GObs(g)

(***************************************************************************)
(* Step bookkeeping                                                        *)
(***************************************************************************)
Log(op, args, s, gg) ==
  hist' = Append(hist, [op |-> op, args |-> args, res |-> s.res, must |-> gg.must,
                        exp |-> GObs(gg), impl |-> Obs(s), dev |-> gg.dev,
                        pages |-> IF Raw THEN <<>> ELSE s.dpages, dlen |-> s.dlen, slen |-> s.storedLen, oob |-> s.oob])

LastK(op, args) == LET l == Append(g.last, <<op, args>>) IN
                   IF Len(l) > HistK THEN SubSeq(l, Len(l) - HistK + 1, Len(l)) ELSE l

Step(op, args, s, gg) ==
  /\ v' = [s EXCEPT !.dead = s.res \in {"panic"}]
  /\ g' = [gg EXCEPT !.last = LastK(op, args)]
  /\ n' = n + 1
  /\ Log(op, args, s, gg)

Alive == ~v.dead /\ n < Depth /\ ~g.sw

(***************************************************************************)
(* Actions.  Every action computes the implementation step under Dev (the  *)
(* code as it is); DevOf(...) is the set of deviation ids whose removal    *)
(* would change that step, i.e. the deviations this step actually took.    *)
(***************************************************************************)
APush ==
  /\ "push" \in Ops /\ Alive /\ GLen < MaxLen
  /\ LET x == g.nxt IN
     Step("push", <<x>>, [v EXCEPT !.pushed = Append(v.pushed, x), !.res = "ok"],
          [Dirty(g) EXCEPT !.vals = Append(g.vals, x), !.nxt = x + 1])

\* checked_push_at(index, value): refused unless index = len (traits/writable.rs)
ACheckedPush ==
  /\ "cpush" \in Ops /\ Alive /\ GLen < MaxLen
  /\ \E idx \in {GLen, GLen + 1} \cup (IF GLen > 0 THEN {GLen - 1} ELSE {}) :
       LET x == g.nxt IN
       IF idx = VLen(v)
       THEN Step("cpush", <<idx, x>>, [v EXCEPT !.pushed = Append(v.pushed, x), !.res = "ok"],
                 IF idx = GLen THEN [Dirty(g) EXCEPT !.vals = Append(g.vals, x), !.nxt = x + 1]
                 ELSE [g EXCEPT !.must = "err", !.nxt = x + 1])
       ELSE Step("cpush", <<idx, x>>, [v EXCEPT !.res = "err"],
                 IF idx = GLen THEN [Dirty(g) EXCEPT !.vals = Append(g.vals, x), !.nxt = x + 1]
                 ELSE [g EXCEPT !.must = "err", !.nxt = x + 1])

ATruncate ==
  /\ "truncate" \in Ops /\ Alive
  /\ \E idx \in 0..MaxLen :
       /\ idx <= GLen        \* idx = len is the no-op case; larger values add nothing
       /\ Step("truncate", <<idx>>, [Truncate(v, idx) EXCEPT !.res = "ok"],
               IF idx < GLen THEN [Dirty(g) EXCEPT !.vals = SubSeq(g.vals, 1, idx)]
               ELSE [g EXCEPT !.must = "ok"])

AUpdate ==
  /\ "update" \in Ops /\ Raw /\ Alive
  /\ \E idx \in 0..GLen :       \* idx = len is the refused request
       LET x == g.nxt
           s == UpdateAt(v, idx, x, Dev)
           d == {e \in Dev : UpdateAt(v, idx, x, Dev \ {e}) # s}
       IN Step("update", <<idx, x>>, s,
               IF idx < GLen
               THEN Tag([Dirty(g) EXCEPT !.vals = [g.vals EXCEPT ![idx + 1] = x], !.nxt = x + 1], d)
               ELSE Tag([g EXCEPT !.must = "err", !.nxt = x + 1], d))

ADelete ==
  /\ "delete" \in Ops /\ Raw /\ Alive
  /\ \E idx \in 0..GLen :
       Step("delete", <<idx>>, [DeleteAt(v, idx) EXCEPT !.res = "ok"],
            IF idx < GLen THEN [Dirty(g) EXCEPT !.vals = [g.vals EXCEPT ![idx + 1] = Nil]]
            ELSE [g EXCEPT !.must = "ok"])

FillOp(s, x, D) ==
  IF s.holes # {}
  THEN LET h == Min(s.holes) IN UpdateAt([s EXCEPT !.holes = s.holes \ {h}], h, x, D)
  ELSE [s EXCEPT !.pushed = Append(s.pushed, x), !.res = "ok"]

AFill ==
  /\ "fill" \in Ops /\ Raw /\ Alive /\ (GHoles # {} \/ GLen < MaxLen)
  /\ LET x == g.nxt
         s == FillOp(v, x, Dev)
         d == {e \in Dev : FillOp(v, x, Dev \ {e}) # s}
         gv == IF GHoles # {} THEN [g.vals EXCEPT ![Min(GHoles) + 1] = x] ELSE Append(g.vals, x)
     IN Step("fill", <<x>>, s, Tag([Dirty(g) EXCEPT !.vals = gv, !.nxt = x + 1], d))

AWrite ==
  /\ "write" \in Ops /\ Alive
  /\ K = 0 \/ g.clean          \* plain writes between commits are outside C04's premise
  /\ LET s == Write(v, Dev)
         d == {e \in Dev : Write(v, Dev \ {e}) # s}
     IN Step("write", <<>>, s, Tag([g EXCEPT !.must = "ok"], d))

AFlushReimport ==
  /\ "reimport" \in Ops /\ Alive
  /\ K = 0 \/ g.clean
  /\ LET s == FlushReimport(v, Dev)
         d == {e \in Dev : FlushReimport(v, Dev \ {e}) # s}
     IN Step("reimport", <<>>, s, Tag([g EXCEPT !.must = "ok"], d))

AReset ==
  /\ "reset" \in Ops /\ Alive
  /\ Step("reset", <<>>, Reset(v),
          [g EXCEPT !.vals = <<>>, !.stamp = 0, !.committed = << [stamp |-> 0, vals |-> <<>>] >>,
                    !.avail = 0, !.pure = TRUE, !.faulted = FALSE, !.consec = 0, !.clean = TRUE, !.must = "ok"])

ACommit ==
  /\ "commit" \in Ops /\ Alive
  /\ \E st \in 1..MaxStamp :
       /\ st > g.stamp
       /\ LET s == Commit(v, st, Dev)
              d == {e \in Dev : Commit(v, st, Dev \ {e}) # s}
          IN Step("commit", <<st>>, s,
                  Tag([g EXCEPT !.stamp = st,
                                !.committed = IF K = 0 THEN << [stamp |-> st, vals |-> g.vals] >>
                                              ELSE Append(g.committed, [stamp |-> st, vals |-> g.vals]),
                                !.avail = Min2(K, g.avail + 1), !.consec = 0, !.clean = TRUE,
                                !.must = "ok"], d))

\* single rollback, issued only when the contents equal the last committed state
ARollback ==
  /\ "rollback" \in Ops /\ Alive /\ g.clean
  /\ LET s == Rollback(v, Dev)
         d == {e \in Dev : Rollback(v, Dev \ {e}) # s}
         ok == s.res = "ok"
         canPop == Len(g.committed) >= 2
         must == IF g.avail = 0 THEN "err" ELSE IF g.pure THEN "ok" ELSE "either"
     IN IF ok /\ canPop
        THEN LET c2 == SubSeq(g.committed, 1, Len(g.committed) - 1) IN
             Step("rollback", <<>>, s,
                  Tag([g EXCEPT !.committed = c2, !.vals = c2[Len(c2)].vals, !.stamp = c2[Len(c2)].stamp,
                            !.avail = Monus(g.avail, 1), !.pure = FALSE, !.consec = g.consec + 1,
                            !.must = must], d))
        ELSE Step("rollback", <<>>, s, Tag([g EXCEPT !.must = must, !.pure = IF ok THEN FALSE ELSE g.pure], d))

\* rollback_before(target)
ARollbackBefore ==
  /\ "rollback_before" \in Ops /\ Alive /\ g.clean /\ K > 0
  /\ \E target \in 1..MaxStamp :
       LET s == RollbackBefore(v, target, Dev)
           d == {e \in Dev : RollbackBefore(v, target, Dev \ {e}) # s}
           m == Len(g.committed)
           \* index in the committed stack the implementation landed on (by stamp)
           land == IF \E j \in 1..m : g.committed[j].stamp = s.stamp
                   THEN CHOOSE j \in 1..m : g.committed[j].stamp = s.stamp ELSE m
           \* index the property asks for: newest state with stamp < target, limited by what is retained
           below == {j \in 1..m : g.committed[j].stamp < target}
           want == Max2(IF below = {} THEN 1 ELSE Max(below), Max2(m - g.avail, 1))
           c2 == SubSeq(g.committed, 1, land)
           moved == m - land
           must == IF g.faulted \/ ~g.pure \/ ~v.dirEx THEN "either"
                   ELSE IF land = want THEN "ok" ELSE "wrong"
       IN Step("rollback_before", <<target>>, s,
               Tag([g EXCEPT !.committed = c2, !.vals = c2[land].vals, !.stamp = c2[land].stamp,
                         !.avail = Monus(g.avail, moved),
                         !.pure = IF moved > 0 THEN FALSE ELSE g.pure,
                         !.consec = g.consec + moved,
                         !.must = must], d))

\* C13: a rollback issued while edits are pending and no usable record exists for the current stamp must be
\* refused and change nothing (with a usable record the call is outside every property's premise and is not generated)
ARollbackRefused ==
  /\ "rb_refused" \in Ops /\ Alive /\ ~g.clean /\ K > 0 /\ v.dirEx
  /\ \/ /\ ~HasRecord(v)
        /\ LET s == Rollback(v, Dev) IN
           Step("rollback", <<>>, s, [g EXCEPT !.must = "err"])
     \/ \E target \in 1..MaxStamp :
          /\ target <= v.stamp
          /\ ~HasRecord(v)
          /\ \E rr \in v.changes : rr.f < v.stamp      \* an older record exists: the walk stops at once with a stamp mismatch
          /\ LET s == RollbackBefore(v, target, Dev) IN
             Step("rollback_before", <<target>>, s, [g EXCEPT !.must = "err"])

\* C16 "a rollback whose change record is missing fails": stamped_write_maybe_with_changes(st, false) gives the vector a stamp
\* for which no record was saved; the only continuation generated is the single rollback, which must be refused and change
\* nothing (a record with that stamp left over from an abandoned future must not be applied)
ASWrite ==
  /\ "swrite" \in Ops /\ Alive /\ K > 0 /\ g.clean /\ ~g.sw
  /\ \E st \in 1..MaxStamp :
       /\ st > g.stamp
       /\ LET SW(D) == LET s0 == Write(SetStamp(v, st), D) IN
                       \* intended: a newly written stamp abandons every record at or above it (D38: the plain stamped write leaves them)
                       IF "D38" \in D THEN s0 ELSE [s0 EXCEPT !.changes = {r \in s0.changes : r.f < st}]
              s == SW(Dev)
              d == {e \in Dev : SW(Dev \ {e}) # s}
          IN Step("swrite", <<st>>, s, Tag([g EXCEPT !.stamp = st, !.sw = TRUE, !.avail = 0, !.must = "ok"], d))
ARollbackAfterSWrite ==
  /\ "swrite" \in Ops /\ ~v.dead /\ n < Depth /\ g.sw
  /\ LET s == Rollback(v, Dev) IN Step("rollback", <<>>, s, [g EXCEPT !.must = "err"])

\* change-directory faults (C16)
AFaultDelete ==
  /\ "fault" \in Ops /\ Alive /\ g.clean /\ HasRecord(v)
  /\ Step("fault_delete", <<v.stamp>>, [v EXCEPT !.changes = v.changes \ {TheRecord(v)}, !.res = "ok"],
          [g EXCEPT !.avail = 0, !.faulted = TRUE, !.must = "ok"])

AFaultCorrupt ==
  /\ "fault" \in Ops /\ Alive /\ g.clean /\ HasRecord(v) /\ ~TheRecord(v).bad
  /\ Step("fault_corrupt", <<v.stamp>>,
          [v EXCEPT !.changes = (v.changes \ {TheRecord(v)}) \cup {[TheRecord(v) EXCEPT !.bad = TRUE]}, !.res = "ok"],
          [g EXCEPT !.avail = 0, !.faulted = TRUE, !.must = "ok"])

Next == \/ APush \/ ACheckedPush \/ ATruncate \/ AUpdate \/ ADelete \/ AFill \/ AWrite \/ AFlushReimport \/ AReset
        \/ ACommit \/ ARollback \/ ARollbackBefore \/ ARollbackRefused \/ AFaultDelete \/ AFaultCorrupt \/ ASWrite \/ ARollbackAfterSWrite

Spec == Init /\ [][Next]_vars

(***************************************************************************)
(* Properties.  Required on behaviours that took no known deviation.       *)
(***************************************************************************)
Untagged == g.dev = {}
OkRes == v.res \in {"ok", "false"}

\* C03 / C04: the implementation's logical contents equal the reference after every step
ViewEq == (Untagged /\ ~v.dead) => Obs(v) = GObs(g)

\* C13 / C16: a refused call changes nothing observable
\* what the property demands of the call's outcome
MustOk == (Untagged /\ n > 0) =>
            /\ (g.must = "ok" => OkRes)
            /\ (g.must = "err" => v.res = "err")
            /\ g.must # "wrong"

\* C16: never more than K consecutive rollbacks
RetentionBound == g.consec <= K
ChangeDirBound == Cardinality(v.changes) <= Max2(K, 0)

\* C07: page index well formed and flushed after every successful write
PagesOk == (~Raw /\ Untagged /\ ~v.dead) =>
             /\ WellFormedPages(v.pages)
             /\ (v.res = "ok" /\ n > 0 /\ hist[n].op \in {"write", "commit", "reimport"} =>
                   v.dpages = v.pages /\ PagesLen(v.pages) = v.dlen)

\* C20: no read on behalf of the vector touches cells at or beyond the region length
NoOob == Untagged => ~v.oob
RWInBounds == (Untagged /\ ~v.dead /\ Raw) => \A i \in DiskReads(v) : ~CellOob(v, i)
ROInBounds == (Untagged /\ ~v.dead /\ Raw) => \A i \in RODiskReads(v) : ~CellOob(v, i)

TypeOK == /\ v.storedLen \in Nat /\ v.dlen \in Nat
          /\ Len(v.cells) >= v.dlen

(***************************************************************************)
(* Emission of behaviours for replay on the real code                      *)
(***************************************************************************)
HView == <<v, g>>
==========================================================================
