----------------------------- MODULE RawCrash -----------------------------
(***************************************************************************)
(* C05 / C12: crash consistency of rawdb, decided on the specification.    *)
(*                                                                         *)
(* RawDb.tla fixes, for every operation, the ORDER of its I/O events       *)
(* (wdata / wmeta / setlen / syncdata / syncmeta / punch); the replay      *)
(* checks that the real I/O tap produces them in that order.  This module  *)
(* adds the durable semantics on top of the recorded events of a history:  *)
(*   - a write dirties pages of the cache; any version a page had since    *)
(*     the last sync of its file may be what the disk holds (4 KiB writes  *)
(*     are atomic), or none of them;                                       *)
(*   - a sync makes the current cache contents of the dirtied pages        *)
(*     durable; a length change is durable at once and in order; a punch   *)
(*     zeroes cache and disk at once;                                      *)
(* and evaluates, in every state, for every crash point inside the LAST    *)
(* operation and every per-page choice, the recovery (Regions::fill +      *)
(* Layout::from = RawDb!Reopen) against the property:                      *)
(*   opens, regions well-formed, pairwise disjoint and inside the file;    *)
(*   every region not modified since the last completed flush has its      *)
(*   flushed name, length and bytes.                                       *)
(* Everything is a function of `hist` (the history variable of RawDb), so  *)
(* no action changes; the durable state is added to the VIEW so that       *)
(* histories with different durable states are not merged.                 *)
(***************************************************************************)
EXTENDS RawDb

PageOf(c) == c \div P
PageCells(pg) == (pg * P)..(pg * P + P - 1)
CellOf(f, c) == IF c \in DOMAIN f THEN f[c] ELSE 0
PageContent(f, pg) == [i \in 1..P |-> CellOf(f, pg * P + i - 1)]
PutPage(f, pg, cont) == [c \in ((DOMAIN f) \ PageCells(pg)) \cup {pg * P + i - 1 : i \in {j \in 1..P : cont[j] # 0}} |->
                          IF c \in PageCells(pg) THEN cont[c - pg * P + 1] ELSE f[c]]
PutCellsAt(f, at, xs) == [c \in (DOMAIN f) \cup {at + i - 1 : i \in 1..Len(xs)} |-> IF c >= at /\ c < at + Len(xs) THEN xs[c - at + 1] ELSE f[c]]
ZeroCells(f, at, len) == [c \in {x \in DOMAIN f : x < at \/ x >= at + len} |-> f[c]]
SlotSet(f, k, x) == [i \in (DOMAIN f) \cup {k} |-> IF i = k THEN x ELSE f[i]]

\* cache (c, cm), durable image (dd, dm, dlen, mlen), versions written since the last sync (pd: <<page, content>>, pm: <<slot, rec>>)
DS0 == [c |-> EmptyFn, cm |-> EmptyFn, dd |-> EmptyFn, dm |-> EmptyFn, dlen |-> IF InitLen > 0 THEN InitLen ELSE 0, mlen |-> 0, pd |-> {}, pm |-> {}]

ApplyEv(ds, e) ==
  CASE e.k = "wdata" ->
         LET c2 == PutCellsAt(ds.c, e.at, e.xs)
             pgs == {PageOf(x) : x \in e.at..(e.at + e.len - 1)}
         IN [ds EXCEPT !.c = c2, !.pd = ds.pd \cup {<<pg, PageContent(c2, pg)>> : pg \in pgs}]
    [] e.k = "wmeta" -> [ds EXCEPT !.cm = SlotSet(ds.cm, e.slot, e.rec), !.pm = ds.pm \cup {<<e.slot, e.rec>>}]
    [] e.k = "setlen" -> IF e.f = "data" THEN [ds EXCEPT !.dlen = e.len] ELSE [ds EXCEPT !.mlen = e.len]
    [] e.k = "syncdata" ->
         LET pgs == {v[1] : v \in ds.pd}
             RECURSIVE Put(_, _)
             Put(f, todo) == IF todo = {} THEN f ELSE LET pg == CHOOSE x \in todo : TRUE IN Put(PutPage(f, pg, PageContent(ds.c, pg)), todo \ {pg})
         IN [ds EXCEPT !.dd = Put(ds.dd, pgs), !.pd = {}]
    [] e.k = "syncmeta" ->
         LET sl == {v[1] : v \in ds.pm} IN
         [ds EXCEPT !.dm = [i \in (DOMAIN ds.dm) \cup sl |-> IF i \in sl THEN ds.cm[i] ELSE ds.dm[i]], !.pm = {}]
    [] e.k = "punch" ->
         [ds EXCEPT !.c = ZeroCells(ds.c, e.at, e.len), !.dd = ZeroCells(ds.dd, e.at, e.len),
                    !.pd = {v \in ds.pd : ~(v[1] * P >= e.at /\ v[1] * P < e.at + e.len)}]
    [] OTHER -> ds

RECURSIVE ApplyAll(_, _)
ApplyAll(ds, io) == IF io = <<>> THEN ds ELSE ApplyAll(ApplyEv(ds, Head(io)), Tail(io))
RECURSIVE DurableAfter(_)
DurableAfter(h) == IF h = <<>> THEN DS0 ELSE ApplyAll(DurableAfter(SubSeq(h, 1, Len(h) - 1)), h[Len(h)].io)

\* what the last completed flush made durable (fl), which of those regions nothing has touched since (un), where they lay (ex)
\* and which had bytes of their flushed extent overwritten in place since (ip).  Region::flush that syncs is a flush of both files.
HasSync(e) == \E k \in 1..Len(e.io) : e.io[k].k = "syncdata"
IsFlushOp(e) == e.op \in {"flush", "compact", "reopen"} \/ (e.op = "rflush" /\ HasSync(e))
ExtOf(e) == [nm \in {x[1] : x \in e.alloc.regs} |-> LET x == CHOOSE y \in e.alloc.regs : y[1] = nm IN <<x[2], x[3]>>]
Hit(e, ex) == {nm \in DOMAIN ex : \E k \in 1..Len(e.io) : e.io[k].k = "wdata" /\ e.io[k].at < ex[nm][1] + ex[nm][2] /\ e.io[k].at + e.io[k].len > ex[nm][1]}
Commit(h) ==
  LET RECURSIVE F(_)
      F(k) == IF k = 0 THEN [fl |-> EmptyFn, un |-> {}, ex |-> EmptyFn, ip |-> {}]
              ELSE LET p == F(k - 1) e == h[k] IN
                   IF IsFlushOp(e) /\ e.res = "ok"
                   THEN LET keep == (DOMAIN e.exp) \cap e.persist IN     \* a region whose slot was never written is not on disk (RawDb: persist)
                        [fl |-> [nm \in keep |-> e.exp[nm]], un |-> keep, ex |-> [nm \in keep \cap DOMAIN ExtOf(e) |-> ExtOf(e)[nm]], ip |-> {}]
                   ELSE LET p1 == [p EXCEPT !.ip = p.ip \cup Hit(e, p.ex)] IN
                        IF e.op \in {"write", "truncate", "remove", "rflush", "create"} THEN [p1 EXCEPT !.un = p.un \ {e.args[1]}]
                        ELSE IF e.op = "rename" THEN [p1 EXCEPT !.un = p.un \ {e.args[1], e.args[2]}]
                        ELSE p1
  IN F(Len(h))

\* every file image a crash can leave behind in durable state ds
KeepM == [keep |-> TRUE]
Images(ds) ==
  LET pgs == {v[1] : v \in ds.pd}
      sls == {v[1] : v \in ds.pm}
      Ext(f, k, x) == [i \in (DOMAIN f) \cup {k} |-> IF i = k THEN x ELSE f[i]]
      RECURSIVE ChD(_)
      ChD(todo) == IF todo = {} THEN {EmptyFn}
                   ELSE LET pg == CHOOSE x \in todo : TRUE IN
                        {Ext(f, pg, x) : f \in ChD(todo \ {pg}), x \in {v[2] : v \in {w \in ds.pd : w[1] = pg}} \cup {<<>>}}
      RECURSIVE ChM(_)
      ChM(todo) == IF todo = {} THEN {EmptyFn}
                   ELSE LET sl == CHOOSE x \in todo : TRUE IN
                        {Ext(f, sl, x) : f \in ChM(todo \ {sl}), x \in {v[2] : v \in {w \in ds.pm : w[1] = sl}} \cup {KeepM}}
      DCh == ChD(pgs)
      MCh == ChM(sls)
      RECURSIVE PutD(_, _, _)
      PutD(f, ch, todo) == IF todo = {} THEN f ELSE LET pg == CHOOSE x \in todo : TRUE IN
                              PutD(IF ch[pg] = <<>> THEN f ELSE PutPage(f, pg, ch[pg]), ch, todo \ {pg})
  IN {[data |-> PutD(ds.dd, dc, pgs),
       meta |-> [i \in (DOMAIN ds.dm) \cup {sl \in sls : mc[sl] # KeepM} |-> IF i \in sls /\ mc[i] # KeepM THEN mc[i] ELSE ds.dm[i]],
       dlen |-> ds.dlen, mlen |-> ds.mlen] : dc \in DCh, mc \in MCh}

\* recovery of an image: the slots that hold a region, as Regions::fill reads them (slots beyond the metadata file do not exist)
Recovered(im) == {i \in DOMAIN im.meta : i <= im.mlen /\ IsReg(im.meta[i])}
WellFormed(im) ==
  LET live == Recovered(im) IN
  /\ \A i \in live : LET m == im.meta[i] IN m.start % P = 0 /\ m.res % P = 0 /\ m.res >= P /\ m.len <= m.res /\ m.start + m.res <= im.dlen
  \* (two slots may carry one name after a crash - a removed region's old slot and its re-creation - the property does not forbid it)
  /\ \A i, j \in live : i # j => (im.meta[i].start + im.meta[i].res <= im.meta[j].start \/ im.meta[j].start + im.meta[j].res <= im.meta[i].start)
RegionBytes(im, m) == [k \in 1..m.len |-> CellOf(im.data, m.start + k - 1)]
Keeps(im, cm) ==
  \A nm \in cm.un : \E i \in Recovered(im) : im.meta[i].id = nm /\ RegionBytes(im, im.meta[i]) = cm.fl[nm]
ImageOk(im, cm) == WellFormed(im) /\ Keeps(im, cm)

\* the durable states at every crash point inside the last operation (before its first event ... after its last)
CrashPoints(h) ==
  IF h = <<>> THEN {DS0}
  ELSE LET before == DurableAfter(SubSeq(h, 1, Len(h) - 1))
           io == h[Len(h)].io
       IN {ApplyAll(before, SubSeq(io, 1, k)) : k \in 0..Len(io)}

\* the commit record that applies at a crash point inside the last operation: a flush counts once it has returned
CommitAt(h) == IF h = <<>> THEN Commit(h) ELSE
  LET prev == Commit(SubSeq(h, 1, Len(h) - 1)) e == h[Len(h)] IN
  IF IsFlushOp(e) THEN prev                                   \* interrupted: the previous flush is the reference; its regions are untouched by a flush
  ELSE Commit(h)                                             \* the interrupted operation's own target is exempt

CrashSafe == (g.dev = {}) =>
  \A ds \in CrashPoints(hist) : \A im \in Images(ds) : ImageOk(im, CommitAt(hist))
\* after the operation has returned, too (the state between two calls), with the operation's own commit if it was a flush
CrashSafeAfter == (g.dev = {}) => \A im \in Images(DurableAfter(hist)) : ImageOk(im, Commit(hist))

\* C05, second sentence: if pages reach the disk only through the library's own syncs (the durable image, no write-back choice),
\* every flushed region whose flushed bytes were not overwritten in place recovers as flushed or - inside a flush - as it was when
\* that flush began, never a mixture
DurableOnly(ds) == [data |-> ds.dd, meta |-> ds.dm, dlen |-> ds.dlen, mlen |-> ds.mlen]
RecBytes(im, nm) == {RegionBytes(im, im.meta[i]) : i \in {j \in Recovered(im) : im.meta[j].id = nm}}
SyncOnlyBody ==
  LET h == hist
      e == h[Len(h)]
      before == DurableAfter(SubSeq(h, 1, Len(h) - 1))
      start == IF Len(h) > 1 THEN h[Len(h) - 1].exp ELSE EmptyFn       \* contents when the last operation began
      prev == Commit(SubSeq(h, 1, Len(h) - 1))
  IN \A k \in 0..Len(e.io) :
       LET im == DurableOnly(ApplyAll(before, SubSeq(e.io, 1, k)))
           inFlush == IsFlushOp(e) /\ k > 0 /\ k < Len(e.io)
           cm == IF k = Len(e.io) THEN Commit(h) ELSE IF IsFlushOp(e) THEN prev ELSE [Commit(h) EXCEPT !.ip = prev.ip \cup Hit([e EXCEPT !.io = SubSeq(e.io, 1, k)], prev.ex)]
       IN WellFormed(im) /\
          \A nm \in (DOMAIN cm.fl) \ cm.ip :
             \/ cm.fl[nm] \in RecBytes(im, nm)
             \/ inFlush /\ nm \in DOMAIN start /\ start[nm] \in RecBytes(im, nm)
             \/ inFlush /\ RecBytes(im, nm) = {} /\ (nm \notin DOMAIN start \/ start[nm] = <<>>)
SyncOnlySafe == (g.dev = {} /\ hist # <<>>) => SyncOnlyBody
SyncOnlySafeAny == hist # <<>> => SyncOnlyBody

\* the same without the "no known deviation taken" guard: used to show that the model sees the recorded deviations (D15)
CrashSafeAny == /\ \A ds \in CrashPoints(hist) : \A im \in Images(ds) : ImageOk(im, CommitAt(hist))
                /\ \A im \in Images(DurableAfter(hist)) : ImageOk(im, Commit(hist))

\* C12: a punch never touches bytes that some image's metadata assigns to a region (checked at the punch event)
PunchSafe == (g.dev = {} /\ hist # <<>>) =>
  LET before == DurableAfter(SubSeq(hist, 1, Len(hist) - 1))
      io == hist[Len(hist)].io
  IN \A k \in 1..Len(io) : io[k].k = "punch" =>
       LET ds == ApplyAll(before, SubSeq(io, 1, k - 1)) IN
       \A im \in Images(ds) : \A i \in Recovered(im) :
          LET m == im.meta[i] IN m.start + m.len <= io[k].at \/ io[k].at + io[k].len <= m.start

\* the cache image rebuilt from the events is the model's volatile image (sanity of the event stream)
CacheAgrees == LET ds == DurableAfter(hist) IN \A c \in (DOMAIN ds.c) \cup (DOMAIN r.data) : CellOf(ds.c, c) = CellOf(r.data, c)

\* the view holds everything the invariants look at: the state, the durable state and commit record now AND before the last
\* operation, the last operation's events and the contents when it began (two histories are merged only if all of that agrees)
CView == IF hist = <<>> THEN <<r, g>>
         ELSE LET pre == SubSeq(hist, 1, Len(hist) - 1) IN
              <<r, g, DurableAfter(hist), Commit(hist), DurableAfter(pre), Commit(pre), hist[Len(hist)].op, hist[Len(hist)].io,
                IF Len(hist) > 1 THEN hist[Len(hist) - 1].exp ELSE EmptyFn>>
===========================================================================
