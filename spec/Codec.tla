------------------------------- MODULE Codec ------------------------------
(***************************************************************************)
(* C17: on-disk codecs.  Each record kind has a field grammar, a validity  *)
(* predicate and a model of its decoder as the sequence of checks the code *)
(* performs (with checked arithmetic).  TLC enumerates the product of      *)
(* boundary classes per field and every truncation point and computes the  *)
(* expected outcome class; the cases are replayed into the real decoders.  *)
(*                                                                         *)
(* Numbers are class codes under an order- and alignment-preserving        *)
(* embedding (one page = 4 units):                                         *)
(*   0->0  1->1  4095->3  4096->4  4097->5  8192->8  2^32->1000            *)
(*   2^63->2000  2^64-1->3003                                              *)
(***************************************************************************)
EXTENDS Integers, Sequences, FiniteSets, TLC

VARIABLE c
vars == <<c>>

PAGE == 4
Num == {0, 1, 3, 4, 5, 8, 1000, 2000, 3003}
Aligned(x) == x % PAGE = 0
\* does a + b overflow 64 bits under the embedding (2^63 + 2^63, anything + 2^64-1 except 0)
AddOverflows(a, b) == (a >= 2000 /\ b >= 2000) \/ (a = 3003 /\ b > 0) \/ (b = 3003 /\ a > 0)

(***************************************************************************)
(* Region metadata slot (rawdb/src/region_metadata.rs:169-236)             *)
(*   id_len classes: 0, 1, 1024, 1025, 4064 (fills the slot), 4065, 2^63   *)
(***************************************************************************)
IdLens == {0, 1, 1024, 1025, 4064, 4065, 2000000}
SlotCases == [k : {"slot"}, size : {"exact", "short", "empty"}, start : Num, len : Num, res : Num, idlen : IdLens, utf8 : {TRUE, FALSE}]

SlotValid(s) == /\ Aligned(s.start) /\ s.res >= PAGE /\ Aligned(s.res) /\ s.len <= s.res
                /\ s.idlen <= 1024 /\ (s.utf8 \/ s.idlen = 0)

\* the decoder, check by check
SlotDecode(s) ==
  IF s.size # "exact" THEN "err_size"
  ELSE IF s.start = 0 /\ s.len = 0 /\ s.res = 0 /\ s.idlen = 0 THEN "err_empty"
  ELSE IF s.idlen > 1024 THEN "err_idlen"
  ELSE IF ~s.utf8 /\ s.idlen > 0 THEN "err_utf8"
  ELSE IF ~Aligned(s.start) THEN "err_start"
  ELSE IF s.res < PAGE THEN "err_reserved"
  ELSE IF ~Aligned(s.res) THEN "err_reserved"
  ELSE IF s.len > s.res THEN "err_len"
  ELSE "ok"

\* at open, an accepted slot becomes a region; the layout computes start + reserved
SlotOpenSafeP(s) == SlotDecode(s) = "ok" => ~AddOverflows(s.start, s.res)

(***************************************************************************)
(* Vector header (vecdb/src/base/header/inner.rs)                          *)
(***************************************************************************)
HeaderCases == [k : {"header"}, size : {"exact", "short", "long"}, hver : {1, 2, 3}, fmt : {"bytes", "zerocopy", "pco", "lz4", "zstd", "bad"}]
HeaderDecode(h) ==
  IF h.size = "short" THEN "err_len"
  ELSE IF h.fmt = "bad" THEN "err_format"
  ELSE "ok"            \* version mismatches are refused later by import_and_verify, not by the decoder

(***************************************************************************)
(* Rollback change record (vecdb/src/base/rollback.rs, raw/.../rollback.rs)*)
(*   fields: stamp prevStoredLen storedLen truncCount [trunc values]       *)
(*           prevPushedLen [values] pushedLen [values]                     *)
(*           modifiedLen [indices] [values] prevHolesLen [holes]  (raw)    *)
(* a case overwrites one length field with a class, or cuts the record at  *)
(* a field boundary (byte offsets inside fields are added by the harness)  *)
(***************************************************************************)
LenFields == {"prevStoredLen", "truncCount", "prevPushedLen", "pushedLen", "modifiedLen", "prevHolesLen"}
\* fit4 / fit8: the largest count whose byte total (count * 4, count * 8) still fits in 64 bits, so that only "position + total" overflows
LenClasses == {"exact", "zero", "minus1", "plus1", "huge61", "b63", "max", "fit4", "fit8"}
ChangeCases == [k : {"change"}, kind : {"raw", "cmp"}, field : LenFields, class : LenClasses, cut : {-1}]
               \cup [k : {"change"}, kind : {"raw", "cmp"}, field : {"-"}, class : {"exact"}, cut : 0..12]

\* expected outcome: a record parses only if every length is exact and nothing is cut; everything else is an error
\* ("minus1"/"plus1"/"zero" on a length whose true value makes them equal to it are filtered by the harness)
ChangeDecode(x) ==
  IF x.cut >= 0 THEN "err"
  ELSE IF x.class = "exact" THEN "ok"
  ELSE IF x.kind = "cmp" /\ x.field \in {"modifiedLen", "prevHolesLen"} THEN "n/a"
  ELSE "err"

(***************************************************************************)
(* Page-index entry: any 16 bytes decode; shorter input is refused         *)
(***************************************************************************)
PageCases == [k : {"page"}, size : {"exact", "short", "long"}, start : {0, 4, 3003}, bytes : {0, 1, 3003}, count : {0, 1, 3003}, raw : {TRUE, FALSE}]
PageDecode(p) == IF p.size = "short" THEN "err_len" ELSE "ok"

(***************************************************************************)
(* Encode side of the slot: a region created under a name of a given byte  *)
(* length made of 1/2/3/4-byte characters must round-trip through write,   *)
(* flush and reopen when the name fits (<= 1024 bytes), and be refused     *)
(* otherwise (never accepted and then lost)                                *)
(***************************************************************************)
NameCases == [k : {"name"}, bytes : {1, 2, 1023, 1024, 1025, 1026, 1200, 2048, 4064, 4068, 4096}, charw : {1, 2, 3, 4}]
NameOutcome(x) == IF x.bytes <= 1024 THEN "ok" ELSE "refused"

Cases == SlotCases \cup HeaderCases \cup ChangeCases \cup PageCases \cup NameCases

Decode(x) == CASE x.k = "slot" -> SlotDecode(x) [] x.k = "header" -> HeaderDecode(x)
               [] x.k = "change" -> ChangeDecode(x) [] x.k = "page" -> PageDecode(x) [] x.k = "name" -> NameOutcome(x)

Init == c \in Cases
Next == UNCHANGED c
Spec == Init /\ [][Next]_vars

\* a decoded slot satisfies the validity rules; a valid slot of the right size decodes
DecodeSound == c.k = "slot" => (SlotDecode(c) = "ok" => SlotValid(c))
SlotOpenSafe == c.k = "slot" => SlotOpenSafeP(c)
DecodeComplete == c.k = "slot" => ((SlotValid(c) /\ c.size = "exact" /\ ~(c.start = 0 /\ c.len = 0 /\ c.res = 0 /\ c.idlen = 0)) => SlotDecode(c) = "ok")
==========================================================================
