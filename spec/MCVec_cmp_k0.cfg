SPECIFICATION Spec
CONSTANTS
  Kind = "cmp"
  K = 0
  PP = 2
  MaxLen = 5
  MaxStamp = 2
  Depth = 7
  Dev <- AllDev
  Ops = {"push","truncate","write","reimport","reset"}
VIEW HView
CONSTRAINT DepthOK
INVARIANT TypeOK
INVARIANT ViewEq
INVARIANT MustOk
INVARIANT PagesOk
CHECK_DEADLOCK FALSE
