SPECIFICATION Spec
CONSTANTS
  Kind = "raw"
  K = 2
  PP = 2
  MaxLen = 3
  MaxStamp = 3
  Depth = 7
  Dev <- AllDev
  Ops = {"push","truncate","update","delete","reimport","commit","rollback","rollback_before"}
VIEW HView
CONSTRAINT DepthOK
INVARIANT TypeOK
INVARIANT ViewEq
INVARIANT MustOk
INVARIANT RetentionBound
INVARIANT ChangeDirBound
INVARIANT RWInBounds
CHECK_DEADLOCK FALSE
