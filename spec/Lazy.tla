------------------------------- MODULE Lazy -------------------------------
(***************************************************************************)
(* C15: lazily computed vectors equal their defining formula through every *)
(* read path.  Side by side: the defining formula of each lazy vector and  *)
(* a transcription of the non-trivial read implementations                 *)
(*   LazyDeltaVec: bulk_try_fold, collect_one_at, read_sorted_into_at      *)
(*                 (variants/lazy/delta/{mod,readable}.rs)                 *)
(*   Sparse aggregation: try_fold, collect_one (variants/lazy/agg/sparse)  *)
(*   LazyVecFrom2: range zip and sorted zip (variants/lazy/from2)          *)
(* TLC evaluates both on every case of a bounded input space; an index     *)
(* outside a buffer is the value PANIC (the model's analogue of an index *)
(* panic).  Each case is also emitted for replay on the real types.        *)
(***************************************************************************)
EXTENDS Integers, Sequences, FiniteSets, TLC, SequencesExt, FiniteSetsExt

CONSTANTS MaxN,      \* source lengths 0..MaxN
          MaxM,      \* mapping lengths 0..MaxM
          Dev        \* known deviations enabled

VARIABLE c           \* the case under evaluation
vars == <<c>>

\* fixed, strictly increasing source contents (prefix-sum like), distinct per index
SrcAll == <<3, 7, 12, 20, 33, 50>>
Src(n) == SubSeq(SrcAll, 1, n)
Src2(n) == [i \in 1..n |-> 100 + SrcAll[i]]

PANIC == -999   \* an index outside a buffer / an arithmetic underflow
NONE == -998    \* no value
SKIP == -997
OOR == -996
At(s, i) == IF i \in 1..Len(s) THEN s[i] ELSE PANIC
Bad(x) == x = PANIC
AnyBad(sq) == \E i \in 1..Len(sq) : Bad(sq[i])

\* monotone non-decreasing mappings of length m with values in 0..top
RECURSIVE Mono(_, _, _)
Mono(m, lo, top) == IF m = 0 THEN {<<>>}
                    ELSE UNION {{<<v>> \o t : t \in Mono(m - 1, v, top)} : v \in lo..top}

(***************************************************************************)
(* Delta operators: "sub" (inclusive, on prefix sums: ago = start-1,       *)
(* count = h-start+1, result max(cur-ago,0)), "change" (ago = start,       *)
(* count = h-start, result cur-ago)                                        *)
(***************************************************************************)
Incl(op) == op = "sub"
AgoIdx(op, start) == IF Incl(op) THEN (IF start = 0 THEN -1 ELSE start - 1) ELSE start    \* -1 = None
Count(op, h, start) == IF Incl(op) THEN h - start + 1 ELSE h - start
Combine(op, cur, ago) == IF op = "sub" THEN (IF cur >= ago THEN cur - ago ELSE 0) ELSE cur - ago

\* defining formula at index h (0-based); the vector is as long as the source and the mapping allow
DeltaLen(src, starts) == IF Len(src) < Len(starts) THEN Len(src) ELSE Len(starts)
DeltaDef(op, src, starts, h) ==
  LET start == starts[h + 1]
      a == AgoIdx(op, start)
  IN IF Count(op, h, start) < 0 THEN PANIC           \* window start beyond its index: not a valid mapping (count underflows)
     ELSE Combine(op, src[h + 1], IF a < 0 THEN 0 ELSE At(src, a + 1))

DeltaRangeDef(op, src, starts, from, to) ==
  LET t == IF to < DeltaLen(src, starts) THEN to ELSE DeltaLen(src, starts) IN
  IF from >= t THEN <<>> ELSE [k \in 1..(t - from) |-> DeltaDef(op, src, starts, from + k - 1)]

\* transcription of bulk_try_fold over [from, to) (to already clamped by the callers)
DeltaBulk(op, src, starts, from, to0) ==
  LET to == IF to0 < DeltaLen(src, starts) THEN to0 ELSE DeltaLen(src, starts) IN
  IF from >= to THEN <<>>
  ELSE LET a0 == AgoIdx(op, starts[from + 1])
           rf0 == IF a0 < 0 THEN 0 ELSE a0
           readFrom == IF rf0 < from THEN rf0 ELSE from
           data == SubSeq(src, readFrom + 1, IF to < Len(src) THEN to ELSE Len(src))   \* collect_range_dyn(read_from, to)
       IN [k \in 1..(to - from) |->
             LET i == from + k - 1
                 start == starts[i + 1]
                 cur == At(data, i - readFrom + 1)
                 a == AgoIdx(op, start)
                 ago == IF a < 0 THEN 0 ELSE (IF a < readFrom THEN PANIC ELSE At(data, a - readFrom + 1))
             IN IF Bad(cur) \/ Bad(ago) \/ Count(op, i, start) < 0 THEN PANIC ELSE Combine(op, cur, ago)]

\* transcription of collect_one_at
DeltaOne(op, src, starts, index) ==
  IF index >= Len(src) THEN NONE
  ELSE IF index >= Len(starts) THEN NONE
  ELSE LET start == starts[index + 1]
           a == AgoIdx(op, start)
       IN IF a >= 0 /\ a >= Len(src) THEN NONE                  \* source.collect_one_at(idx)? propagates None
          ELSE IF Count(op, index, start) < 0 THEN PANIC
          ELSE Combine(op, src[index + 1], IF a < 0 THEN 0 ELSE src[a + 1])

\* transcription of read_sorted_into_at(indices)
DeltaSorted(op, src, starts, idx) ==
  LET len == DeltaLen(src, starts)
      count == Len(idx)
      \* reads: <<pos, slot, isCurrent>>, stable-sorted by pos
      readsU == [s \in 1..count |->
                  IF idx[s] < len
                  THEN (IF AgoIdx(op, starts[idx[s] + 1]) >= 0
                        THEN << <<idx[s], s, TRUE>>, <<AgoIdx(op, starts[idx[s] + 1]), s, FALSE>> >>
                        ELSE << <<idx[s], s, TRUE>> >>)
                  ELSE <<>>]
      flat == FoldLeft(LAMBDA acc, x : acc \o x, <<>>, readsU)
      sorted == SortSeq(flat, LAMBDA x, y : x[1] < y[1])
      positions == FoldLeft(LAMBDA acc, x : IF acc # <<>> /\ acc[Len(acc)] = x[1] THEN acc ELSE Append(acc, x[1]), <<>>, sorted)
      \* source.read_sorted_at(positions): values of in-range positions, in order (out-of-range ones are skipped!)
      vals == SelectSeq([k \in 1..Len(positions) |-> IF positions[k] < Len(src) THEN src[positions[k] + 1] ELSE SKIP], LAMBDA x : x # SKIP)
      PosIndex(p) == CHOOSE k \in 1..Len(positions) : positions[k] = p
      curVi(s) == PosIndex(idx[s])
      agoVi(s) == LET a == AgoIdx(op, starts[idx[s] + 1]) IN IF a < 0 THEN 1 ELSE PosIndex(a)
  IN SelectSeq([s \in 1..count |->
        IF idx[s] >= len THEN SKIP
        ELSE LET start == starts[idx[s] + 1]
                 cur == At(vals, curVi(s))
                 ago == IF AgoIdx(op, start) < 0 THEN 0 ELSE At(vals, agoVi(s))
             IN IF Bad(cur) \/ Bad(ago) \/ Count(op, idx[s], start) < 0 THEN PANIC ELSE Combine(op, cur, ago)],
      LAMBDA x : x # SKIP)

DeltaSortedDef(op, src, starts, idx) ==
  SelectSeq([s \in 1..Len(idx) |-> IF idx[s] < DeltaLen(src, starts) THEN DeltaDef(op, src, starts, idx[s]) ELSE SKIP], LAMBDA x : x # SKIP)

(***************************************************************************)
(* Sparse aggregation over a first-index mapping: output i = last source   *)
(* element of [mapping[i], mapping[i+1]) (or of [mapping[i], len) for the  *)
(* last index), NONE for an empty range.                                 *)
(***************************************************************************)
SparseDef(src, mp, i) ==
  LET first == mp[i + 1]
      nxt == IF i + 2 <= Len(mp) THEN mp[i + 2] ELSE Len(src)
      hi == IF nxt < Len(src) THEN nxt ELSE Len(src)       \* only elements that exist
  IN IF hi = 0 \/ first >= hi THEN NONE ELSE src[hi]

\* transcription of Sparse::try_fold over [from, to)
SparseFold(src, mp, from, to, D) ==
  LET NextRaw(i) == IF i + 2 <= Len(mp) THEN mp[i + 2] ELSE Len(src)
      \* intended design: a first index beyond the source end is clamped to it (D10: the code does not)
      NextFirst(i) == IF "D10" \in D \/ NextRaw(i) < Len(src) THEN NextRaw(i) ELSE Len(src)
      want == [k \in 1..(to - from) |->
                LET i == from + k - 1 IN
                IF NextFirst(i) = 0 \/ mp[i + 1] >= NextFirst(i) THEN -1 ELSE NextFirst(i) - 1]
      indices == SelectSeq(want, LAMBDA x : x >= 0)
      \* read_sorted_at skips positions beyond the source
      values == SelectSeq([k \in 1..Len(indices) |-> IF indices[k] < Len(src) THEN src[indices[k] + 1] ELSE SKIP], LAMBDA x : x # SKIP)
      SlotOfK(k) == Cardinality({j \in 1..k : want[j] >= 0})
  IN [k \in 1..(to - from) |-> IF want[k] < 0 THEN NONE ELSE At(values, SlotOfK(k))]

SparseOne(src, mp, i, D) ==
  LET first == mp[i + 1]
      nraw == IF i + 2 <= Len(mp) THEN mp[i + 2] ELSE Len(src)
      nxt == IF "D10" \in D \/ nraw < Len(src) THEN nraw ELSE Len(src)
  IN IF nxt = 0 \/ first >= nxt THEN NONE
     ELSE IF nxt - 1 < Len(src) THEN src[nxt] ELSE NONE        \* Some(source.collect_one_at(next_first - 1)) = Some(None)

(***************************************************************************)
(* Two-source transform: out[i] = s1[i] + s2[i], as long as the shorter    *)
(***************************************************************************)
F2Def(s1, s2, from, to) ==
  LET len == IF Len(s1) < Len(s2) THEN Len(s1) ELSE Len(s2)
      t == IF to < len THEN to ELSE len
  IN IF from >= t THEN <<>> ELSE [k \in 1..(t - from) |-> s1[from + k] + s2[from + k]]
F2SortedDef(s1, s2, idx) ==
  LET len == IF Len(s1) < Len(s2) THEN Len(s1) ELSE Len(s2) IN
  SelectSeq([k \in 1..Len(idx) |-> IF idx[k] < len THEN s1[idx[k] + 1] + s2[idx[k] + 1] ELSE SKIP], LAMBDA x : x # SKIP)
\* transcription of read_sorted_into_at: zip by position of the two sources' sorted reads
F2Sorted(s1, s2, idx) ==
  LET v1 == SelectSeq([k \in 1..Len(idx) |-> IF idx[k] < Len(s1) THEN s1[idx[k] + 1] ELSE SKIP], LAMBDA x : x # SKIP)
      v2 == SelectSeq([k \in 1..Len(idx) |-> IF idx[k] < Len(s2) THEN s2[idx[k] + 1] ELSE SKIP], LAMBDA x : x # SKIP)
      m == IF Len(v1) < Len(v2) THEN Len(v1) ELSE Len(v2)
  IN [k \in 1..m |-> v1[k] + v2[k]]

(***************************************************************************)
(* Cases                                                                   *)
(***************************************************************************)
SortedLists(top) == {SetToSortSeq(S, <) : S \in SUBSET (0..top)}

Cases ==
  \* windowed delta: starts[h] <= h + 1 for the inclusive op (empty window), <= h for the other
  {[k |-> "delta", op |-> op, n |-> n, mp |-> st, from |-> f, to |-> t, idx |-> <<>>] :
      op \in {"sub", "change"}, n \in 0..MaxN, st \in UNION {Mono(m, 0, MaxN) : m \in 0..MaxM}, f \in 0..(MaxN + 1), t \in 0..(MaxN + 1)}
  \cup {[k |-> "delta_sorted", op |-> op, n |-> n, mp |-> st, from |-> 0, to |-> 0, idx |-> ix] :
      op \in {"sub", "change"}, n \in 0..MaxN, st \in UNION {Mono(m, 0, MaxN) : m \in 0..MaxM}, ix \in SortedLists(MaxN)}
  \cup {[k |-> "sparse", op |-> "-", n |-> n, mp |-> st, from |-> f, to |-> t, idx |-> <<>>] :
      n \in 0..MaxN, st \in UNION {Mono(m, 0, MaxN + 1) : m \in 0..MaxM}, f \in 0..MaxM, t \in 0..MaxM}
  \cup {[k |-> "from2", op |-> "-", n |-> n, mp |-> <<m2>>, from |-> f, to |-> t, idx |-> ix] :
      n \in 0..MaxN, m2 \in 0..MaxN, f \in {0, 1}, t \in {MaxN, MaxN + 1}, ix \in SortedLists(MaxN)}

ValidWindow(cs) ==
  cs.k \notin {"delta", "delta_sorted"} \/
  \A h \in 0..(Len(cs.mp) - 1) : cs.mp[h + 1] <= (IF Incl(cs.op) THEN h + 1 ELSE h)

Init == c \in {cs \in Cases : ValidWindow(cs)}
Next == UNCHANGED c
Spec == Init /\ [][Next]_vars

(***************************************************************************)
(* What the implementation computes / what the formula says, per case      *)
(***************************************************************************)
Impl(cs) ==
  CASE cs.k = "delta" ->
         [range |-> DeltaBulk(cs.op, Src(cs.n), cs.mp, cs.from, cs.to),
          one |-> [i \in 0..MaxN |-> DeltaOne(cs.op, Src(cs.n), cs.mp, i)]]
    [] cs.k = "delta_sorted" -> [sorted |-> DeltaSorted(cs.op, Src(cs.n), cs.mp, cs.idx)]
    [] cs.k = "sparse" ->
         LET t == IF cs.to < Len(cs.mp) THEN cs.to ELSE Len(cs.mp) IN
         [range |-> IF cs.from >= t THEN <<>> ELSE SparseFold(Src(cs.n), cs.mp, cs.from, t, Dev),
          one |-> [i \in 0..MaxM |-> IF i < Len(cs.mp) THEN SparseOne(Src(cs.n), cs.mp, i, Dev) ELSE OOR]]
    [] cs.k = "from2" -> [sorted |-> F2Sorted(Src(cs.n), Src2(cs.mp[1]), cs.idx)]

Def(cs) ==
  CASE cs.k = "delta" ->
         [range |-> DeltaRangeDef(cs.op, Src(cs.n), cs.mp, cs.from, cs.to),
          one |-> [i \in 0..MaxN |-> IF i < DeltaLen(Src(cs.n), cs.mp) THEN DeltaDef(cs.op, Src(cs.n), cs.mp, i) ELSE NONE]]
    [] cs.k = "delta_sorted" -> [sorted |-> DeltaSortedDef(cs.op, Src(cs.n), cs.mp, cs.idx)]
    [] cs.k = "sparse" ->
         LET t == IF cs.to < Len(cs.mp) THEN cs.to ELSE Len(cs.mp) IN
         [range |-> IF cs.from >= t THEN <<>> ELSE [k \in 1..(t - cs.from) |-> SparseDef(Src(cs.n), cs.mp, cs.from + k - 1)],
          one |-> [i \in 0..MaxM |-> IF i < Len(cs.mp) THEN SparseDef(Src(cs.n), cs.mp, i) ELSE OOR]]
    [] cs.k = "from2" -> [sorted |-> F2SortedDef(Src(cs.n), Src2(cs.mp[1]), cs.idx)]

\* known deviation D10: a first-index entry beyond the source end (mapping longer than the source allows)
D10Case(cs) == cs.k = "sparse" /\ \E i \in 1..Len(cs.mp) : cs.mp[i] > cs.n

Agrees == (~("D10" \in Dev /\ D10Case(c))) => Impl(c) = Def(c)
==========================================================================
