---------------------------- MODULE MCOpenLock ----------------------------
EXTENDS OpenLock, Json
Emit == (n > 0) => PrintT(<<"REPLAY", ToJson(hist)>>)
\* behaviours in which a released directory still has a running task (known deviation D20), for targeted replay
EmitBad == (~alive /\ bg = "running") => PrintT(<<"BAD", ToJson(hist)>>)
==========================================================================
