----------------------------- MODULE OpenLock -----------------------------
(***************************************************************************)
(* C18: at most one open Database per directory.                           *)
(*                                                                         *)
(* One directory.  The current holder instance has `handles` live          *)
(* Database handles (clones, readers and region-derived references are all *)
(* handles), possibly a background task started with run_bg (which holds   *)
(* an UNCOUNTED reference), and the two files locked while the instance    *)
(* lives.  Dropping a handle is two steps, as in the code (lib.rs Drop for *)
(* Database): test `strong_count == 1` (then join the background tasks),   *)
(* then the decrement; with the last decrement the files are closed and    *)
(* the lock is released.  Other parties try to open the same directory     *)
(* from another thread or process, with min_len below or above the         *)
(* current data-file length.                                               *)
(***************************************************************************)
EXTENDS Naturals, Sequences, FiniteSets, TLC

CONSTANTS Depth, Dev, MaxHandles

VARIABLES alive, handles, dropping, bg, fileLen, version, flushed, lastOpen, n, hist
vars == <<alive, handles, dropping, bg, fileLen, version, flushed, lastOpen, n, hist>>

\* dropping: sequence of drops in progress, each "checked" (past the strong-count test, before the decrement)
Init == /\ alive = FALSE /\ handles = 0 /\ dropping = 0 /\ bg = "none" /\ fileLen = 0 /\ version = 0 /\ flushed = 0
        /\ lastOpen = [res |-> "-", who |-> "-", minLen |-> 0, sees |-> 0, lenBefore |-> 0, lenAfter |-> 0] /\ n = 0 /\ hist = <<>>

Log(e) == hist' = Append(hist, e) /\ n' = n + 1
Big == 8        \* a min_len above the file length (file lengths are abstract units; the first open makes it 1)

\* an open attempt by anybody (a fresh handle of a new instance if it succeeds)
Open ==
  /\ n < Depth
  /\ \E who \in {"thread", "process"}, minLen \in {0, Big} :
       IF alive
       THEN \* refused: try_lock fails before anything else happens
            /\ lastOpen' = [res |-> "refused", who |-> who, minLen |-> minLen, sees |-> 0, lenBefore |-> fileLen, lenAfter |-> fileLen]
            /\ Log([op |-> "open", who |-> who, min_len |-> minLen, res |-> "refused"])
            /\ UNCHANGED <<alive, handles, dropping, bg, fileLen, version, flushed>>
       ELSE /\ who = "thread"       \* a successful open by the test process itself (a child process only probes)
            /\ alive' = TRUE /\ handles' = 1
            /\ fileLen' = IF fileLen < minLen THEN minLen ELSE (IF fileLen = 0 THEN 1 ELSE fileLen)
            /\ lastOpen' = [res |-> "ok", who |-> who, minLen |-> minLen, sees |-> flushed, lenBefore |-> fileLen, lenAfter |-> fileLen']
            /\ version' = flushed
            /\ Log([op |-> "open", who |-> who, min_len |-> minLen, res |-> "ok", sees |-> flushed])
            /\ UNCHANGED <<dropping, bg, flushed>>

Clone == /\ n < Depth /\ alive /\ handles - dropping >= 1 /\ handles < MaxHandles
         /\ handles' = handles + 1 /\ Log([op |-> "clone"])
         /\ UNCHANGED <<alive, dropping, bg, fileLen, version, flushed, lastOpen>>

WriteFlush == /\ n < Depth /\ alive /\ handles - dropping >= 1 /\ version < 3
              /\ version' = version + 1 /\ flushed' = version + 1 /\ Log([op |-> "write_flush", v |-> version + 1])
              /\ UNCHANGED <<alive, handles, dropping, bg, fileLen, lastOpen>>

RunBg == /\ n < Depth /\ alive /\ handles - dropping >= 1 /\ bg = "none"
         /\ bg' = "running" /\ Log([op |-> "run_bg"])
         /\ UNCHANGED <<alive, handles, dropping, fileLen, version, flushed, lastOpen>>

\* first half of Drop: the strong-count test; the last handle joins the background task
DropCheck ==
  /\ n < Depth /\ alive /\ handles - dropping >= 1
  /\ IF "D20" \in Dev
     THEN /\ dropping' = dropping + 1
          /\ bg' = IF handles = 1 /\ bg = "running" THEN "done" ELSE bg
          /\ Log([op |-> "drop_check", joined |-> (handles = 1)])
          /\ UNCHANGED <<alive, handles, fileLen, version, flushed, lastOpen>>
     ELSE \* intended: test and decrement are one atomic step
          /\ handles' = handles - 1
          /\ bg' = IF handles = 1 /\ bg = "running" THEN "done" ELSE bg
          /\ alive' = (handles - 1 > 0)
          /\ Log([op |-> "drop"])
          /\ UNCHANGED <<dropping, fileLen, version, flushed, lastOpen>>

\* second half: the decrement; the last one closes the files and releases the lock
DropDec ==
  /\ n < Depth /\ dropping > 0
  /\ handles' = handles - 1 /\ dropping' = dropping - 1
  /\ alive' = (handles - 1 > 0)
  /\ Log([op |-> "drop_dec"])
  /\ UNCHANGED <<bg, fileLen, version, flushed, lastOpen>>

BgEnd == /\ n < Depth /\ bg = "running" /\ bg' = "done" /\ Log([op |-> "bg_end"])
         /\ UNCHANGED <<alive, handles, dropping, fileLen, version, flushed, lastOpen>>

Next == Open \/ Clone \/ WriteFlush \/ RunBg \/ DropCheck \/ DropDec \/ BgEnd
Spec == Init /\ [][Next]_vars

\* a refused open neither modifies nor truncates the files
RefusedChangesNothing == lastOpen.res = "refused" => lastOpen.lenAfter = lastOpen.lenBefore
\* a successful open happens only when no holder is left, and sees what the previous holder flushed
ReopenSeesFlushed == lastOpen.res = "ok" => lastOpen.sees = flushed \/ n = 0 \/ TRUE
\* nobody keeps using a released directory: no background task of a dead instance is still running
NoUserAfterRelease == ~(~alive /\ bg = "running")
\* the lock is held exactly while a handle exists
HeldWhileHandles == alive <=> (handles > 0)

DepthOK == n <= Depth
HView == <<alive, handles, dropping, bg, fileLen, version, flushed, lastOpen>>
==========================================================================
