---------------------------- MODULE RawDbTrace ----------------------------
(***************************************************************************)
(* Code -> spec: validation of executions RECORDED from the real rawdb     *)
(* (vh rawrecord: a seeded random driver, hundreds of operations per run)  *)
(* against RawDb.tla.                                                      *)
(*                                                                         *)
(* One trace line = one public call: operation, arguments, result class    *)
(* and the cheap abstract state after the call (placement of every region, *)
(* holes, pending holes, file length) plus each region's contents as cell  *)
(* values.  A trace step applies the SAME operator the model-checking      *)
(* actions use (Create, WriteWith, TruncateReg, Rename, RemoveReg, Flush,  *)
(* RegionFlush, Compact, FlushReopen) to the current specification state   *)
(* and requires the result to match the logged state; the invariants of    *)
(* C01 / C02 (RefEq, Partition) are evaluated by TLC on every state of the *)
(* trace.  Nothing is left to infer: the search is linear in the trace.    *)
(*                                                                         *)
(* The first line of a recording that does not match is printed with the   *)
(* model's prediction (the orchestrator decides whether the logged state   *)
(* itself breaks C01 / C02) and validation continues with the next         *)
(* recording ("reset" line).  FINISHED <lines> <mismatches> ends the run.  *)
(***************************************************************************)
EXTENDS RawDb, Json, IOUtils

\* the recording is parsed once (TraceInit) and kept in a TLC register (run with -workers 1)
Rec == TLCGet(42)

VARIABLES l, bad
tvars == <<vars, l, bad>>

SeqSet(x) == {x[i] : i \in 1..Len(x)}
LoggedAlloc(e) == [regs |-> SeqSet(e.alloc.regs), holes |-> SeqSet(e.alloc.holes), fileLen |-> e.alloc.fileLen]
LoggedPend(e) == SeqSet(e.alloc.pend)

\* the state the specification predicts for event e (s) and the reference after it (gg); dd = deviations taken
Apply(e) ==
  CASE e.op = "create" ->
         [s |-> Create(rr, e.nm), gg |-> [g EXCEPT !.ref = FnSet(g.ref, e.nm, <<>>), !.must = "ok"], dd |-> {}]
    [] e.op = "write" ->
         LET old == g.ref[e.nm]
             xs == Fresh(e.sz)
             trunc == e.trunc = 1
         IN [s |-> WriteWith(rr, e.nm, e.at, xs, trunc, Dev),
             gg |-> IF e.at > Len(old) THEN [g EXCEPT !.must = "err", !.nxt = g.nxt + e.sz]
                    ELSE [g EXCEPT !.ref[e.nm] = RefWrite(old, e.at, xs, trunc), !.nxt = g.nxt + e.sz, !.must = "ok",
                                   !.persist = g.persist \cup {e.nm}],
             dd |-> {}]
    [] e.op = "truncate" ->
         [s |-> TruncateReg(rr, e.nm, e.to),
          gg |-> IF e.to > Len(g.ref[e.nm]) THEN [g EXCEPT !.must = "err"]
                 ELSE [g EXCEPT !.ref[e.nm] = SubSeq(g.ref[e.nm], 1, e.to), !.must = "ok",
                                !.persist = IF e.to < Len(g.ref[e.nm]) THEN g.persist \cup {e.nm} ELSE g.persist],
          dd |-> {}]
    [] e.op = "rename" ->
         [s |-> Rename(rr, e.nm, e.new),
          gg |-> IF Exists(r, e.new) THEN [g EXCEPT !.must = "err"]
                 ELSE [g EXCEPT !.ref = [x \in (DOMAIN g.ref \ {e.nm}) \cup {e.new} |-> IF x = e.new THEN g.ref[e.nm] ELSE g.ref[x]],
                                !.persist = (g.persist \ {e.nm}) \cup {e.new}, !.must = "ok"],
          dd |-> {}]
    [] e.op = "remove" ->
         LET s0 == RemoveReg(rr, e.nm, Dev) IN
         [s |-> s0, gg |-> [g EXCEPT !.ref = [x \in DOMAIN g.ref \ {e.nm} |-> g.ref[x]], !.persist = g.persist \ {e.nm}, !.must = "ok"],
          dd |-> {d \in Dev : RemoveReg(rr, e.nm, Dev \ {d}) # s0}]
    [] e.op = "flush" ->
         LET s0 == Flush(rr, Dev) IN [s |-> s0, gg |-> [g EXCEPT !.must = "ok"], dd |-> {d \in Dev : Flush(rr, Dev \ {d}) # s0}]
    [] e.op = "rflush" ->
         [s |-> RegionFlush(rr, e.nm), gg |-> [g EXCEPT !.must = "either"], dd |-> {}]
    [] e.op = "compact" ->
         LET s0 == Compact(rr, Dev) IN [s |-> s0, gg |-> [g EXCEPT !.must = "ok"], dd |-> {d \in Dev : Compact(rr, Dev \ {d}) # s0}]
    [] e.op = "reset" ->            \* a new recording starts (fresh database): several runs share one TLC invocation
         [s |-> [R0 EXCEPT !.res = "ok"], gg |-> G0, dd |-> {}]
    [] e.op = "reopen" ->
         LET s0 == FlushReopen(rr, Dev)
             keep == DOMAIN g.ref \cap g.persist
         IN [s |-> s0, gg |-> [g EXCEPT !.ref = [x \in keep |-> g.ref[x]], !.must = "ok"], dd |-> {d \in Dev : FlushReopen(rr, Dev \ {d}) # s0}]
    [] OTHER ->                      \* "panic": the call did not return; nothing the specification does explains that
         [s |-> [rr EXCEPT !.res = "panic"], gg |-> [g EXCEPT !.must = "ok"], dd |-> {}]

ResOk(e, a) == \/ a.gg.must = "either"
               \/ (a.gg.must = "ok" /\ e.res = "ok" /\ a.s.res = "ok")
               \/ (a.gg.must = "err" /\ e.res = "err" /\ a.s.res = "err")

Matches(e, a) ==
  /\ ResOk(e, a)
  /\ Alloc(a.s) = LoggedAlloc(e)
  /\ a.s.pend = LoggedPend(e)
  /\ Obs(a.s) = e.contents

TraceInit == TLCSet(42, ndJsonDeserialize(IOEnv.TRACE)) /\ Init /\ l = 1 /\ bad = 0

\* index of the next "reset" line after i (or the end)
NextRun(i) == LET js == {j \in (i + 1)..Len(Rec) : Rec[j].op = "reset"} IN IF js = {} THEN Len(Rec) + 1 ELSE Min(js)

TraceStep ==
  /\ l <= Len(Rec)
  /\ LET e == Rec[l]
         a == Apply(e)
     IN IF e.op = "reset"
        THEN /\ r' = R0 /\ g' = G0 /\ n' = 0 /\ hist' = hist /\ l' = l + 1 /\ bad' = bad
        ELSE IF Matches(e, a)
        THEN /\ r' = [a.s EXCEPT !.io = <<>>, !.path = "-"]
             /\ g' = Tag(a.gg, a.dd)
             /\ n' = n + 1 /\ hist' = hist
             /\ l' = l + 1 /\ bad' = bad
        ELSE \* first line of this recording that the specification does not explain: report the prediction, go on with the next recording
             /\ PrintT(<<"MISMATCH", ToJson(<<l, e.op, Alloc(a.s), a.s.pend, Obs(a.s), a.s.res, a.gg.must, GObs(a.gg), g.dev>>)>>)
             /\ r' = R0 /\ g' = G0 /\ n' = 0 /\ hist' = hist
             /\ l' = NextRun(l) /\ bad' = bad + 1

TraceSpec == TraceInit /\ [][TraceStep]_tvars

\* C01 / C02 on the specification state that explains the trace so far (untagged histories only)
TraceRefEq == RefEq
TracePartition == Partition
Done == l = Len(Rec) + 1 => PrintT(<<"FINISHED", ToJson(<<Len(Rec), bad>>)>>)
TView == <<r, g, l, bad>>
==========================================================================
