------------------------------ MODULE RawDb ------------------------------
(***************************************************************************)
(* Implementation-shaped specification of rawdb (crates/rawdb): regions,   *)
(* the region-metadata file, the Layout allocator and the data file, at    *)
(* the granularity of public calls, together with the reference model of   *)
(* C01 (one independent byte vector per region name) and the extent        *)
(* invariants of C02.  Units are cells: P cells = one 4 KiB page.          *)
(*                                                                         *)
(*  r : implementation state (slots / layout maps / file images)           *)
(*  g : ghost: reference contents per name, expectation for the last call  *)
(*                                                                         *)
(* I/O events of every call are appended to r.io so that the crash model   *)
(* (RawCrash.tla) can cut a call at any point.                             *)
(***************************************************************************)
EXTENDS Naturals, Sequences, FiniteSets, TLC, SequencesExt, FiniteSetsExt

CONSTANTS
  Names,       \* region names
  P,           \* cells per page
  Sizes,       \* write sizes (cells)
  Floor,       \* file growth floor (cells): set_min_len grows to max(len, 2*cur, Floor)
  InitLen,     \* open_with_min_len argument (cells, not necessarily page aligned)
  MaxFile,     \* bound on the layout length (cells) explored
  PreWrite,    \* TRUE: the pre-created regions also get one cell of data each and a final flush
  PreN,        \* number of regions (names "a","b",... in this order) created, one page each, before the explored history starts
  WKinds,      \* write kinds enabled: subset of {"append","at0","atend","tw0","tw1","oob"}
  Depth, Dev, Ops, HistK

VARIABLES r, g, n, hist
vars == <<r, g, n, hist>>

None == [none |-> TRUE]
EmptyFn == [i \in {} |-> 0]
Min2(a, b) == IF a < b THEN a ELSE b
Max2(a, b) == IF a > b THEN a ELSE b
Ceil(x) == ((x + P - 1) \div P) * P
FnSet(f, k, x) == [i \in (DOMAIN f) \cup {k} |-> IF i = k THEN x ELSE f[i]]

(***************************************************************************)
(* State                                                                   *)
(***************************************************************************)
\* a slot: None or [id, start, len, res, st, dirty, refs]
\*   st: "NW" needs write, "NF" needs flush, "CL" clean; dirty: has dirty bounds; refs: extra handles held by callers
IsReg(s) == "id" \in DOMAIN s
IsRdr(x) == "nm" \in DOMAIN x

R0 == [ slots |-> <<>>,              \* Regions.index_to_region
        lreg |-> {},                 \* Layout.start_to_region as set of <<start, slot>>
        holes |-> <<>>,              \* Layout.start_to_hole, in insertion order (hole_to_starts order matters for best fit)
        pend |-> {},                 \* Layout.pending_holes as set of <<start, size>>
        resv |-> {},                 \* Layout.start_to_reserved (only non-empty when a relocation leaked its reservation)
        fileLen |-> IF InitLen > 0 THEN InitLen ELSE 0,
        metaLen |-> 0,               \* slots in the regions file
        data |-> EmptyFn,            \* volatile image of the data file (non-zero cells only)
        vmeta |-> EmptyFn,           \* volatile image of the regions file: slot -> [id,start,len,res] (absent = zero bytes)
        rdr |-> None,                \* a live Reader: [nm, start, len] snapshot taken at creation (holds the mmap read lock)
        io |-> <<>>,                 \* I/O events of the last call
        path |-> "-",                \* placement path taken by the last write
        res |-> "ok" ]

G0 == [ ref |-> [x \in {} |-> <<>>],   \* reference contents
        rseen |-> <<>>,                 \* per offset of the live reader: values its region held since the reader was created
        persist |-> {},                 \* names whose metadata slot was ever written (survive reopen)
        must |-> "ok", dev |-> {}, nxt |-> 1, last |-> <<>> ]

InitDeferred == TRUE

SlotOf(s, nm) == CHOOSE i \in 1..Len(s.slots) : IsReg(s.slots[i]) /\ s.slots[i].id = nm
Exists(s, nm) == \E i \in 1..Len(s.slots) : IsReg(s.slots[i]) /\ s.slots[i].id = nm
Live(s) == {i \in 1..Len(s.slots) : IsReg(s.slots[i])}
LiveNames(s) == {s.slots[i].id : i \in Live(s)}

HoleSet(s) == {s.holes[i] : i \in 1..Len(s.holes)}

\* Layout::len()
LayoutLen(s) ==
  LET ends == {h[1] + h[2] : h \in HoleSet(s)} \cup {p[1] + p[2] : p \in s.pend} \cup {p[1] + p[2] : p \in s.resv}
              \cup {e[1] + s.slots[e[2]].res : e \in {x \in s.lreg : IsReg(s.slots[x[2]])}}
  IN IF ends = {} THEN 0 ELSE Max(ends)

(***************************************************************************)
(* Layout operations (layout.rs)                                           *)
(***************************************************************************)
InsertHole(s, start, size) == [s EXCEPT !.holes = Append(s.holes, <<start, size>>)]
RemoveHole(s, start) == [s EXCEPT !.holes = SelectSeq(s.holes, LAMBDA h : h[1] # start)]
HoleAt(s, start) == IF \E h \in HoleSet(s) : h[1] = start
                    THEN (CHOOSE h \in HoleSet(s) : h[1] = start)[2] ELSE 0

\* find_smallest_adequate_hole: smallest size >= min, first inserted among that size
BestFit(s, minSize) ==
  LET ok == {i \in 1..Len(s.holes) : s.holes[i][2] >= minSize} IN
  IF ok = {} THEN 0
  ELSE LET sz == Min({s.holes[i][2] : i \in ok})
           i == Min({j \in ok : s.holes[j][2] = sz})
       IN i                            \* index into holes (0 = none)

\* remove_or_compress_hole(start, by): take `by` cells from the front of the hole
TakeFromHole(s, start, by) ==
  LET size == HoleAt(s, start)
      s1 == RemoveHole(s, start)
  IN IF size > by THEN InsertHole(s1, start + by, size - by) ELSE s1

\* promote_pending_holes: ascending start; coalesce with the real hole before and after
RECURSIVE Promote(_, _)
Promote(s, ps) ==
  IF ps = {} THEN s
  ELSE LET p == CHOOSE q \in ps : \A q2 \in ps : q[1] <= q2[1]
           before == {h \in HoleSet(s) : h[1] + h[2] = p[1]}
           hb == IF before = {} THEN <<p[1], 0>> ELSE CHOOSE h \in before : TRUE
           s1 == IF before = {} THEN s ELSE RemoveHole(s, hb[1])
           fstart == hb[1]
           size1 == p[2] + hb[2]
           after == HoleAt(s1, fstart + size1)
           s2 == IF after > 0 THEN RemoveHole(s1, fstart + size1) ELSE s1
       IN Promote(InsertHole(s2, fstart, size1 + after), ps \ {p})

PromotePending(s) == [Promote(s, s.pend) EXCEPT !.pend = {}]

\* intended design (deviation D8 is its absence): an extent that a live reader still maps stays pending
ReaderPins(s, p) == "nm" \in DOMAIN s.rdr /\ p[1] < s.rdr.start + s.rdr.len /\ s.rdr.start < p[1] + p[2]
PromoteD(s, D) == IF "D8" \in D THEN PromotePending(s)
                  ELSE LET keep == {p \in s.pend : ReaderPins(s, p)} IN
                       [Promote(s, s.pend \ keep) EXCEPT !.pend = keep]

\* is_last_anything(region)
IsLastAnything(s, slot) ==
  LET starts == {e[1] : e \in s.lreg} IN
  /\ starts # {}
  /\ LET ls == Max(starts) IN
     /\ <<ls, slot>> \in s.lreg
     /\ \A h \in HoleSet(s) : ls > h[1]
     /\ \A p \in s.pend : ls > p[1]
     /\ \A p \in s.resv : ls > p[1]

(***************************************************************************)
(* File growth (lib.rs:130-158)                                            *)
(***************************************************************************)
SetMinLen(s, len) ==
  LET l == Ceil(len) IN
  IF s.fileLen >= l THEN s
  ELSE LET t == Ceil(Max2(Max2(l, 2 * s.fileLen), Floor)) IN
       [s EXCEPT !.fileLen = t, !.io = Append(s.io, [k |-> "setlen", f |-> "data", len |-> t])]

(***************************************************************************)
(* Metadata slot writes                                                    *)
(***************************************************************************)
MetaRec(reg) == [id |-> reg.id, start |-> reg.start, len |-> reg.len, res |-> reg.res]

\* write_if_dirty: state NW -> write slot bytes, NF
WriteIfDirty(s, slot) ==
  LET reg == s.slots[slot] IN
  IF reg.st = "NW"
  THEN [s EXCEPT !.vmeta = FnSet(s.vmeta, slot, MetaRec(reg)),
                 !.slots[slot].st = "NF",
                 !.io = Append(s.io, [k |-> "wmeta", slot |-> slot, rec |-> MetaRec(reg)])]
  ELSE s

Touch(reg, f, x) == IF reg[f] = x THEN reg ELSE [reg EXCEPT ![f] = x, !.st = "NW"]

\* write cells [at, at+Len(xs)) of the data file
PutData(s, at, xs) ==
  [s EXCEPT !.data = [c \in (DOMAIN s.data) \cup {at + i - 1 : i \in 1..Len(xs)} |->
                        IF c >= at /\ c < at + Len(xs) THEN xs[c - at + 1] ELSE s.data[c]],
            !.io = IF Len(xs) = 0 THEN s.io ELSE Append(s.io, [k |-> "wdata", at |-> at, len |-> Len(xs), xs |-> SubSeq(xs, 1, Len(xs))])]   \* (SubSeq: an evaluated tuple, not a lazy function)
Cell(s, c) == IF c \in DOMAIN s.data THEN s.data[c] ELSE 0
ReadRange(s, at, len) == [i \in 1..len |-> Cell(s, at + i - 1)]
ZeroRange(s, at, len) == [s EXCEPT !.data = [c \in {x \in DOMAIN s.data : x < at \/ x >= at + len} |-> s.data[c]]]

(***************************************************************************)
(* create_region_if_needed (lib.rs:170-209, regions.rs:89-114)             *)
(***************************************************************************)
Create(s0, nm) ==
  IF Exists(s0, nm) THEN [s0 EXCEPT !.res = "ok"]
  ELSE
    LET s == IF BestFit(s0, P) = 0 THEN SetMinLen(s0, LayoutLen(s0) + P) ELSE s0
        bi == BestFit(s, P)
        start == IF bi > 0 THEN s.holes[bi][1] ELSE LayoutLen(s)
        s1 == IF bi > 0 THEN TakeFromHole(s, start, P) ELSE s
        free == {i \in 1..Len(s1.slots) : ~IsReg(s1.slots[i])}
        slot == IF free = {} THEN Len(s1.slots) + 1 ELSE Min(free)
        reg == [id |-> nm, start |-> start, len |-> 0, res |-> P, st |-> "NW", dirty |-> FALSE, refs |-> 0]
        slots2 == IF slot > Len(s1.slots) THEN Append(s1.slots, reg) ELSE [s1.slots EXCEPT ![slot] = reg]
        s2 == [s1 EXCEPT !.slots = slots2, !.lreg = s1.lreg \cup {<<start, slot>>},
                         !.metaLen = Max2(s1.metaLen, slot),
                         !.io = IF slot > s1.metaLen THEN Append(s1.io, [k |-> "setlen", f |-> "meta", len |-> slot]) ELSE s1.io,
                         !.res = "ok"]
    IN s2

(***************************************************************************)
(* Region::write_with (region.rs:139-313)                                  *)
(*   at = -1 means append                                                  *)
(***************************************************************************)
NewReserved(res, newLen) ==
  LET RECURSIVE Dbl(_)
      Dbl(x) == IF newLen > x THEN Dbl(2 * x) ELSE x
  IN Dbl(res)

SetLenAndSlot(s, slot, newLen) ==
  LET reg == s.slots[slot] IN
  IF newLen = reg.len THEN s
  ELSE WriteIfDirty([s EXCEPT !.slots[slot] = Touch(reg, "len", newLen)], slot)

WriteWith(s, nm, at, xs, trunc, D) ==
  LET slot == SlotOf(s, nm)
      reg == s.slots[slot]
      dl == Len(xs)
      off == IF at < 0 THEN reg.len ELSE at
      newLen == IF at < 0 THEN reg.len + dl
                ELSE IF trunc THEN at + dl ELSE Max2(at + dl, reg.len)
  IN
  IF at >= 0 /\ at > reg.len THEN [s EXCEPT !.res = "err"]
  ELSE IF newLen <= reg.res
  THEN \* fits in reserved space
       LET s1 == PutData(s, reg.start + off, xs)
           s2 == [s1 EXCEPT !.slots[slot].dirty = (dl > 0) \/ reg.dirty]
       IN [SetLenAndSlot(s2, slot, newLen) EXCEPT !.res = "ok"]
  ELSE
    LET newRes == NewReserved(reg.res, newLen)
        added == newRes - reg.res
        copyLen == IF trunc THEN off ELSE reg.len
    IN
    IF IsLastAnything(s, slot)
    THEN \* extend the last region in the file
         LET s1 == [s EXCEPT !.slots[slot] = Touch(reg, "res", newRes)]
             s2 == SetMinLen(s1, reg.start + newRes)
             s3 == PutData(s2, reg.start + off, xs)
             s4 == [s3 EXCEPT !.slots[slot].dirty = TRUE]
         IN [SetLenAndSlot(s4, slot, newLen) EXCEPT !.res = "ok", !.path = "last"]
    ELSE IF HoleAt(s, reg.start + reg.res) >= added
    THEN \* expand into the adjacent hole
         LET s1 == TakeFromHole(s, reg.start + reg.res, added)
             s2 == [s1 EXCEPT !.slots[slot] = Touch(reg, "res", newRes)]
             s3 == PutData(s2, reg.start + off, xs)
             s4 == [s3 EXCEPT !.slots[slot].dirty = TRUE]
         IN [SetLenAndSlot(s4, slot, newLen) EXCEPT !.res = "ok", !.path = "adjacent"]
    ELSE \* relocate into a hole or to the end
         LET bi == BestFit(s, newRes)
             newStart == IF bi > 0 THEN s.holes[bi][1] ELSE LayoutLen(s)
             s1 == IF bi > 0 THEN TakeFromHole(s, newStart, newRes)
                   ELSE SetMinLen(s, newStart + newRes)
             old == ReadRange(s1, reg.start, copyLen)
             s2 == PutData(PutData(s1, newStart, old), newStart + off, xs)
             \* move_region: old extent -> pending hole (fails, leaking the reservation, when the layout lost the region: D1)
             s3 == [s2 EXCEPT !.lreg = (s2.lreg \ {<<reg.start, slot>>}) \cup {<<newStart, slot>>},
                              !.pend = s2.pend \cup {<<reg.start, reg.res>>}]
             reg2 == Touch(Touch(Touch(reg, "start", newStart), "res", newRes), "len", newLen)
             s4 == [s3 EXCEPT !.slots[slot] = [reg2 EXCEPT !.dirty = TRUE]]
         IN IF <<reg.start, slot>> \notin s.lreg
            THEN [s2 EXCEPT !.resv = s2.resv \cup {<<newStart, newRes>>}, !.res = "err", !.path = "reloc_fail"]
            ELSE [WriteIfDirty(s4, slot) EXCEPT !.res = "ok", !.path = IF bi > 0 THEN "reloc_hole" ELSE "reloc_end"]

(***************************************************************************)
(* truncate, rename, remove, retain                                        *)
(***************************************************************************)
TruncateReg(s, nm, to) ==
  LET slot == SlotOf(s, nm) reg == s.slots[slot] IN
  IF to = reg.len THEN [s EXCEPT !.res = "ok"]
  ELSE IF to > reg.len THEN [s EXCEPT !.res = "err"]
  ELSE [SetLenAndSlot(s, slot, to) EXCEPT !.res = "ok"]

Rename(s, nm, new) ==
  IF Exists(s, new) THEN [s EXCEPT !.res = "err"]
  ELSE LET slot == SlotOf(s, nm) IN
       [WriteIfDirty([s EXCEPT !.slots[slot] = Touch(s.slots[slot], "id", new)], slot) EXCEPT !.res = "ok"]

\* Region::remove: layout entry removed first (extent -> pending hole), then the reference count check
RemoveReg(s, nm, D) ==
  LET slot == SlotOf(s, nm) reg == s.slots[slot] IN
  IF <<reg.start, slot>> \notin s.lreg THEN [s EXCEPT !.res = "err"]      \* RegionIndexMismatch
  ELSE IF reg.refs > 0 \/ (IsRdr(s.rdr) /\ s.rdr.nm = nm)
  THEN IF "D1" \in D
       THEN [s EXCEPT !.lreg = s.lreg \ {<<reg.start, slot>>}, !.pend = s.pend \cup {<<reg.start, reg.res>>}, !.res = "err"]
       ELSE [s EXCEPT !.res = "err"]
  ELSE [s EXCEPT !.lreg = s.lreg \ {<<reg.start, slot>>}, !.pend = s.pend \cup {<<reg.start, reg.res>>},
                 !.slots[slot] = None,
                 !.vmeta = [i \in (DOMAIN s.vmeta) \ {slot} |-> s.vmeta[i]],
                 !.io = Append(s.io, [k |-> "wmeta", slot |-> slot, rec |-> None]),
                 !.res = "ok"]

(***************************************************************************)
(* flush, region flush, compact, reopen                                    *)
(***************************************************************************)
DirtySlots(s) == {i \in Live(s) : s.slots[i].dirty \/ s.slots[i].st = "NF"}

Flush(s, D) ==
  LET ds == DirtySlots(s) IN
  IF ds = {}
  THEN IF "D15" \in D THEN [PromoteD(s, D) EXCEPT !.res = "ok"]
       ELSE \* intended: metadata made durable before freed extents become reusable
            [PromoteD([s EXCEPT !.io = IF s.pend = {} THEN s.io ELSE Append(s.io, [k |-> "syncmeta"])], D) EXCEPT !.res = "ok"]
  ELSE LET s1 == [s EXCEPT !.slots = [i \in 1..Len(s.slots) |->
                                        IF i \in ds THEN [s.slots[i] EXCEPT !.dirty = FALSE,
                                                                        !.st = IF s.slots[i].st = "NF" THEN "CL" ELSE s.slots[i].st]
                                        ELSE s.slots[i]],
                           !.io = s.io \o << [k |-> "syncdata"], [k |-> "syncmeta"] >>]
       IN [PromoteD(s1, D) EXCEPT !.res = "ok"]

RegionFlush(s, nm) ==
  LET slot == SlotOf(s, nm) reg == s.slots[slot] IN
  IF reg.st = "NW" THEN [s EXCEPT !.slots[slot].dirty = FALSE, !.res = "err"]    \* RegionMetadataUnwritten (dirty bounds already taken)
  ELSE IF reg.dirty \/ reg.st = "NF"
       THEN [s EXCEPT !.slots[slot].dirty = FALSE, !.slots[slot].st = "CL",
                      !.io = s.io \o << [k |-> "syncdata"], [k |-> "syncmeta"] >>, !.res = "ok"]
       ELSE [s EXCEPT !.res = "ok"]

\* punch_holes: reserved tails beyond ceil(len), and every promoted hole
RECURSIVE PunchAll(_, _)
PunchAll(s, ranges) ==
  IF ranges = {} THEN s
  ELSE LET q == CHOOSE x \in ranges : TRUE IN
       PunchAll([ZeroRange(s, q[1], q[2]) EXCEPT !.io = Append(s.io, [k |-> "punch", at |-> q[1], len |-> q[2]])], ranges \ {q})

\* "XPF" is not a deviation of the code: a hypothetical order (punch first, flush afterwards) used only to show that the crash
\* invariants of RawCrash.tla are not vacuous
Compact(s, D) ==
  IF "XPF" \in D THEN
    LET tails0 == {<<s.slots[i].start + Ceil(s.slots[i].len), s.slots[i].res - Ceil(s.slots[i].len)>> :
                     i \in {j \in Live(s) : Ceil(s.slots[j].len) < s.slots[j].res}}
        p == PunchAll(s, tails0 \cup HoleSet(s))
    IN [Flush(p, D \ {"XPF"}) EXCEPT !.res = "ok"]
  ELSE
  LET s1 == Flush(s, D)
      tails == {<<s1.slots[i].start + Ceil(s1.slots[i].len), s1.slots[i].res - Ceil(s1.slots[i].len)>> :
                  i \in {j \in Live(s1) : Ceil(s1.slots[j].len) < s1.slots[j].res}}
      \* intended design (reader.rs: "blocks file growth and compaction while held"): what a live reader maps is not punched; D36 is its absence
      all == tails \cup HoleSet(s1)
      s2 == PunchAll(s1, IF "D36" \in D THEN all ELSE {q \in all : ~ReaderPins(s1, q)})
  IN [s2 EXCEPT !.io = Append(s2.io, [k |-> "syncdata"]), !.res = "ok"]

\* close and reopen: Regions::fill + Layout::from on what the files hold (no crash: the page cache)
Reopen(s) ==
  LET nslots == s.metaLen
      slots2 == [i \in 1..nslots |-> IF i \in DOMAIN s.vmeta
                                     THEN [id |-> s.vmeta[i].id, start |-> s.vmeta[i].start, len |-> s.vmeta[i].len,
                                           res |-> s.vmeta[i].res, st |-> "CL", dirty |-> FALSE, refs |-> 0]
                                     ELSE None]
      live == {i \in 1..nslots : IsReg(slots2[i])}
      lreg2 == {<<slots2[i].start, i>> : i \in live}
      RECURSIVE Gaps(_, _, _)
      Gaps(todo, prevEnd, acc) ==
        IF todo = {} THEN acc
        ELSE LET e == CHOOSE x \in todo : \A y \in todo : x[1] <= y[1]
                 acc2 == IF prevEnd # e[1] THEN Append(acc, <<prevEnd, e[1] - prevEnd>>) ELSE acc
             IN Gaps(todo \ {e}, e[1] + slots2[e[2]].res, acc2)
  IN [s EXCEPT !.slots = slots2, !.lreg = lreg2, !.holes = Gaps(lreg2, 0, <<>>), !.pend = {}, !.resv = {}, !.res = "ok"]

FlushReopen(s, D) == Reopen(Flush(s, D))

(***************************************************************************)
(* Ghost                                                                   *)
(***************************************************************************)
Fresh(k) == [i \in 1..k |-> g.nxt + i - 1]
Tag(gg, d) == [gg EXCEPT !.dev = gg.dev \cup d]

RefWrite(old, at, xs, trunc) ==
  LET off == IF at < 0 THEN Len(old) ELSE at
      newLen == IF at < 0 THEN Len(old) + Len(xs) ELSE IF trunc THEN at + Len(xs) ELSE Max2(at + Len(xs), Len(old))
  IN [i \in 1..newLen |-> IF i > off /\ i <= off + Len(xs) THEN xs[i - off] ELSE old[i]]

\* observable projection: names, and per name length and bytes
Obs(s) == [nm \in LiveNames(s) |-> LET reg == s.slots[SlotOf(s, nm)] IN ReadRange(s, reg.start, reg.len)]
GObs(gg) == gg.ref

\* allocator projection (compared with the real layout at exact scale)
Alloc(s) == [regs |-> {<<s.slots[i].id, s.slots[i].start, s.slots[i].len, s.slots[i].res>> : i \in Live(s)},
             holes |-> HoleSet(s), fileLen |-> s.fileLen]

(***************************************************************************)
(* Step bookkeeping                                                        *)
(***************************************************************************)
\* the reader holds the mmap read lock: a call that must grow the file cannot complete while it lives
NoGrowth(s) == IsRdr(r.rdr) => s.fileLen = r.fileLen
\* keep the reader's ghost up to date: after a step, add what its region now holds at every offset of the snapshot
Seen(gg, s) ==
  IF ~IsRdr(s.rdr) THEN gg
  ELSE IF ~Exists(s, s.rdr.nm) THEN gg
  ELSE LET reg == s.slots[SlotOf(s, s.rdr.nm)] IN
       [gg EXCEPT !.rseen = [k \in 1..Len(gg.rseen) |->
                               IF k <= reg.len THEN gg.rseen[k] \cup {Cell(s, reg.start + k - 1)} ELSE gg.rseen[k]]]

LastK(op, args) == LET l == Append(g.last, <<op, args>>) IN
                   IF Len(l) > HistK THEN SubSeq(l, Len(l) - HistK + 1, Len(l)) ELSE l

Step(op, args, s, gg) ==
  /\ NoGrowth(s)
  /\ r' = [s EXCEPT !.io = <<>>, !.path = "-"]
  /\ g' = [Seen(gg, s) EXCEPT !.last = LastK(op, args)]
  /\ n' = n + 1
  /\ hist' = Append(hist, [op |-> op, args |-> args, res |-> s.res, must |-> gg.must, path |-> s.path,
                           exp |-> GObs(gg), impl |-> Obs(s), alloc |-> Alloc(s), pend |-> s.pend, resv |-> s.resv,
                           dev |-> gg.dev, io |-> s.io, persist |-> gg.persist,
                           rdr |-> IF IsRdr(s.rdr) THEN ReadRange(s, s.rdr.start, s.rdr.len) ELSE <<>>,
                           rseen |-> Seen(gg, s).rseen])

PreSteps == IF PreWrite THEN 2 * PreN + 1 ELSE PreN
Alive == n < Depth /\ Len(hist) >= PreSteps
\* regions both the implementation state and the reference know (they differ only after a tagged deviation)
KnownNames == LiveNames(r) \cap DOMAIN g.ref
Start(s) == [s EXCEPT !.io = <<>>, !.path = "-"]
rr == Start(r)

ACreate ==
  /\ "create" \in Ops /\ Alive
  /\ \E nm \in Names :
       /\ ~Exists(r, nm)
       /\ LET s == Create(rr, nm) IN
          /\ LayoutLen(s) <= MaxFile
          /\ Step("create", <<nm>>, s, [g EXCEPT !.ref = FnSet(g.ref, nm, <<>>), !.must = "ok"])


AWrite ==
  /\ "write" \in Ops /\ Alive
  /\ \E nm \in KnownNames, k \in WKinds, sz \in Sizes :
       LET old == g.ref[nm]
           at == CASE k = "append" -> -1 [] k = "at0" -> 0 [] k = "atend" -> Len(old)
                   [] k = "tw0" -> 0 [] k = "tw1" -> Min2(1, Len(old)) [] k = "oob" -> Len(old) + 1
           trunc == k \in {"tw0", "tw1"}
           xs == Fresh(sz)
           s == WriteWith(rr, nm, at, xs, trunc, Dev)
       IN /\ (k = "oob" => sz = Min(Sizes))
          /\ (k = "atend" => sz = Min(Sizes))
          /\ LayoutLen(s) <= MaxFile
          /\ Step("write", <<nm, at, sz, IF trunc THEN 1 ELSE 0, g.nxt>>, s,
                  IF k = "oob" THEN [g EXCEPT !.must = "err", !.nxt = g.nxt + sz]
                  ELSE [g EXCEPT !.ref[nm] = RefWrite(old, at, xs, trunc), !.nxt = g.nxt + sz, !.must = "ok",
                                 !.persist = g.persist \cup {nm}])

ATruncate ==
  /\ "truncate" \in Ops /\ Alive
  /\ \E nm \in KnownNames : \E to \in {0, 1, Len(g.ref[nm]) + 1} :
       /\ (to = 1 => Len(g.ref[nm]) > 1)
       /\ Step("truncate", <<nm, to>>, TruncateReg(rr, nm, to),
               IF to > Len(g.ref[nm]) THEN [g EXCEPT !.must = "err"]
               ELSE [g EXCEPT !.ref[nm] = SubSeq(g.ref[nm], 1, to), !.must = "ok",
                              !.persist = IF to < Len(g.ref[nm]) THEN g.persist \cup {nm} ELSE g.persist])

ARename ==
  /\ "rename" \in Ops /\ Alive
  /\ \E nm \in KnownNames, new \in Names :
       /\ new # nm
       /\ Step("rename", <<nm, new>>, Rename(rr, nm, new),
               IF Exists(r, new) THEN [g EXCEPT !.must = "err"]
               ELSE [g EXCEPT !.ref = [x \in (DOMAIN g.ref \ {nm}) \cup {new} |-> IF x = new THEN g.ref[nm] ELSE g.ref[x]],
                              !.persist = (g.persist \ {nm}) \cup {new}, !.must = "ok"])

ARemove ==
  /\ "remove" \in Ops /\ Alive
  /\ \E nm \in KnownNames :
       LET s == RemoveReg(rr, nm, Dev)
           d == {e \in Dev : RemoveReg(rr, nm, Dev \ {e}) # s}
       IN Step("remove", <<nm>>, s,
               Tag(IF r.slots[SlotOf(r, nm)].refs > 0 \/ (IsRdr(r.rdr) /\ r.rdr.nm = nm) THEN [g EXCEPT !.must = "err"]
                   ELSE [g EXCEPT !.ref = [x \in DOMAIN g.ref \ {nm} |-> g.ref[x]], !.persist = g.persist \ {nm}, !.must = "ok"], d))

\* the caller keeps / drops an extra handle to a region (affects only the refusal of remove)
AHold ==
  /\ "hold" \in Ops /\ Alive
  /\ \E nm \in KnownNames :
       LET slot == SlotOf(r, nm) IN
       /\ r.slots[slot].refs = 0
       /\ Step("hold", <<nm>>, [rr EXCEPT !.slots[slot].refs = 1, !.res = "ok"], [g EXCEPT !.must = "ok"])
ARelease ==
  /\ "hold" \in Ops /\ Alive
  /\ \E i \in Live(r) :
       /\ r.slots[i].refs = 1
       /\ Step("release", <<r.slots[i].id>>, [rr EXCEPT !.slots[i].refs = 0, !.res = "ok"], [g EXCEPT !.must = "ok"])

AFlush ==
  /\ "flush" \in Ops /\ Alive
  /\ LET s == Flush(rr, Dev)
         dd == {e \in Dev : Flush(rr, Dev \ {e}) # s}
     IN Step("flush", <<>>, s, Tag([g EXCEPT !.must = "ok"], dd))

ARegionFlush ==
  /\ "rflush" \in Ops /\ Alive
  /\ \E nm \in KnownNames :
       Step("rflush", <<nm>>, RegionFlush(rr, nm), [g EXCEPT !.must = "either"])

ACompact ==
  /\ "compact" \in Ops /\ Alive
  /\ LET s == Compact(rr, Dev)
         dd == {e \in Dev : Compact(rr, Dev \ {e}) # s}
     IN Step("compact", <<>>, s, Tag([g EXCEPT !.must = "ok"], dd))

AReopen ==
  /\ "reopen" \in Ops /\ Alive /\ ~IsRdr(r.rdr)
  /\ \A i \in Live(r) : r.slots[i].refs = 0
  /\ LET s == FlushReopen(rr, Dev)
         dd == {e \in Dev : FlushReopen(rr, Dev \ {e}) # s}
         keep == DOMAIN g.ref \cap g.persist
     IN Step("reopen", <<>>, s, Tag([g EXCEPT !.ref = [x \in keep |-> g.ref[x]], !.must = "ok"], dd))

Pre == SubSeq(<<"a", "b", "c", "d", "e", "f">>, 1, PreN)
\* the regions named in Pre are created first (and, with PreWrite, given one cell of data each and flushed), as
\* ordinary replayed steps that do not count towards Depth
PreRec(op, args, s1, g1) ==
  [op |-> op, args |-> args, res |-> s1.res, must |-> "ok", path |-> s1.path,
   exp |-> GObs(g1), impl |-> Obs(s1), alloc |-> Alloc(s1), pend |-> s1.pend, resv |-> s1.resv,
   dev |-> {}, io |-> s1.io, persist |-> g1.persist, rdr |-> <<>>, rseen |-> <<>>]
APre ==
  /\ Len(hist) < PreSteps
  /\ LET k == Len(hist) + 1 IN
     IF k <= PreN
     THEN LET nm == Pre[k]
              s1 == Create(rr, nm)
              g1 == [g EXCEPT !.ref = FnSet(g.ref, nm, <<>>), !.must = "ok"]
          IN /\ r' = [s1 EXCEPT !.io = <<>>, !.path = "-"] /\ g' = g1 /\ n' = n
             /\ hist' = Append(hist, PreRec("create", <<nm>>, s1, g1))
     ELSE IF k <= 2 * PreN
     THEN LET nm == Pre[k - PreN]
              xs == Fresh(1)
              s1 == WriteWith(rr, nm, -1, xs, FALSE, Dev)
              g1 == [g EXCEPT !.ref[nm] = xs, !.nxt = g.nxt + 1, !.must = "ok", !.persist = g.persist \cup {nm}]
          IN /\ r' = [s1 EXCEPT !.io = <<>>, !.path = "-"] /\ g' = g1 /\ n' = n
             /\ hist' = Append(hist, PreRec("write", <<nm, -1, 1, 0, g.nxt>>, s1, g1))
     ELSE LET s1 == Flush(rr, Dev)
              g1 == [g EXCEPT !.must = "ok"]
          IN /\ r' = [s1 EXCEPT !.io = <<>>, !.path = "-"] /\ g' = g1 /\ n' = n
             /\ hist' = Append(hist, PreRec("flush", <<>>, s1, g1))

Init == r = R0 /\ g = G0 /\ n = 0 /\ hist = <<>>

\* a Reader: snapshot of (start, len) at creation, reads later go through the snapshot
AReaderNew ==
  /\ "reader" \in Ops /\ Alive /\ ~IsRdr(r.rdr)
  /\ \E nm \in KnownNames :
       LET reg == r.slots[SlotOf(r, nm)] IN
       /\ reg.len > 0
       /\ Step("reader_new", <<nm>>, [rr EXCEPT !.rdr = [nm |-> nm, start |-> reg.start, len |-> reg.len], !.res = "ok"],
               [g EXCEPT !.rseen = [k \in 1..reg.len |-> {Cell(r, reg.start + k - 1)}], !.must = "ok"])

AReaderRead ==
  /\ "reader" \in Ops /\ Alive /\ IsRdr(r.rdr)
  /\ Step("reader_read", <<r.rdr.nm>>, [rr EXCEPT !.res = "ok"], [g EXCEPT !.must = "ok"])

AReaderDrop ==
  /\ "reader" \in Ops /\ Alive /\ IsRdr(r.rdr)
  /\ Step("reader_drop", <<r.rdr.nm>>, [rr EXCEPT !.rdr = None, !.res = "ok"], [g EXCEPT !.rseen = <<>>, !.must = "ok"])

Next == \/ APre \/ AReaderNew \/ AReaderRead \/ AReaderDrop \/ ACreate \/ AWrite \/ ATruncate \/ ARename \/ ARemove \/ AHold \/ ARelease
        \/ AFlush \/ ARegionFlush \/ ACompact \/ AReopen

Spec == Init /\ [][Next]_vars

(***************************************************************************)
(* Properties                                                              *)
(***************************************************************************)
Untagged == g.dev = {}

\* C01: every live region reads back the reference bytes; names agree
RefEq == Untagged => Obs(r) = GObs(g)

MustOk == (Untagged /\ n > 0) => /\ (g.must = "ok" => r.res = "ok")
                                 /\ (g.must = "err" => r.res = "err")

\* C10: bytes obtained through a live reader are bytes its own region held since the reader was created
ReaderOwn == (Untagged /\ IsRdr(r.rdr)) =>
               \A k \in 1..r.rdr.len : k <= Len(g.rseen) => Cell(r, r.rdr.start + k - 1) \in g.rseen[k]

\* C02: extents
Extents(s) == {<<s.slots[i].start, s.slots[i].res, "r">> : i \in Live(s)}
              \cup {<<h[1], h[2], "h">> : h \in HoleSet(s)} \cup {<<p[1], p[2], "p">> : p \in s.pend}
              \cup {<<p[1], p[2], "v">> : p \in s.resv}
Aligned == \A e \in Extents(r) : e[1] % P = 0 /\ e[2] % P = 0 /\ e[2] >= P
LenFits == \A i \in Live(r) : r.slots[i].len <= r.slots[i].res
InsideFile == \A i \in Live(r) : r.slots[i].start + r.slots[i].res <= r.fileLen
Disjoint == \A e1, e2 \in Extents(r) : e1 # e2 => (e1[1] + e1[2] <= e2[1] \/ e2[1] + e2[2] <= e1[1])
Covered == LET total == LayoutLen(r) IN
           \A pg \in 0..((total \div P) - 1) : \E e \in Extents(r) : e[1] <= pg * P /\ pg * P < e[1] + e[2]
Merged == \A h1, h2 \in HoleSet(r) : h1[1] + h1[2] # h2[1]
LayoutAgrees == r.lreg = {<<r.slots[i].start, i>> : i \in Live(r)}
Partition == Untagged => (Aligned /\ LenFits /\ InsideFile /\ Disjoint /\ Covered /\ Merged /\ LayoutAgrees)

\* C02 second half: a placement at the end of the allocated area only when no adequate hole exists
\* (checked as a state predicate on the last step through its path label)
TypeOK == r.fileLen >= 0

HView == <<r, g>>
DepthOK == n <= Depth
==========================================================================
