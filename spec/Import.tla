------------------------------ MODULE Import ------------------------------
(***************************************************************************)
(* C14: import / forced import of a stored vector against what is on disk. *)
(* Implementation-shaped: the requested version is the user version plus   *)
(* the per-layer VERSION constant, added once by import_with and - in the  *)
(* code as it is - once more by forced_import_with (deviation D7); a forced*)
(* reset removes the data region (and the page index) but not the holes    *)
(* region of raw vectors (deviation D21).                                  *)
(***************************************************************************)
EXTENDS Naturals, Sequences, FiniteSets, TLC

CONSTANTS Versions, Formats, Depth, Dev

VARIABLES d, g, n, hist
vars == <<d, g, n, hist>>

IsRaw(f) == f \in {"bytes", "zerocopy"}
Layer(f) == IF IsRaw(f) THEN 1 ELSE 3

\* d: what the database holds for the vector's name; g: what the user did (reference)
D0 == [ex |-> FALSE, sver |-> 0, sfmt |-> "-", data |-> <<>>, holes |-> {}, holesEx |-> FALSE, res |-> "ok", view |-> <<>>, vholes |-> {},
       cur |-> "-"]           \* format of the currently held vector object ("-" = none)
G0 == [ex |-> FALSE, uver |-> 0, ufmt |-> "-", data |-> <<>>, holes |-> {}, must |-> "ok", view |-> <<>>, vholes |-> {}, dev |-> {}, nxt |-> 1]

Init == d = D0 /\ g = G0 /\ n = 0 /\ hist = <<>>

Req(entry, v, f, D) == v + Layer(f) * (IF entry = "forced" /\ "D7" \in D THEN 2 ELSE 1)

Fresh(s, v, f, entry, D) ==
  [s EXCEPT !.ex = TRUE, !.sver = Req(entry, v, f, D), !.sfmt = f, !.data = <<>>,
            !.holes = IF "D21" \in D /\ s.holesEx THEN s.holes ELSE {},      \* (the region survives also while the name holds a compressed vector)
            !.holesEx = IF "D21" \in D THEN s.holesEx ELSE FALSE,
            !.res = "ok", !.view = <<>>,
            !.vholes = IF "D21" \in D /\ IsRaw(f) /\ s.holesEx THEN s.holes ELSE {}, !.cur = f]

ImportOp(s, entry, v, f, D) ==
  IF ~s.ex THEN Fresh(s, v, f, entry, D)
  ELSE LET req == Req(entry, v, f, D)
           mism == IF s.sver # req THEN "err_version" ELSE IF s.sfmt # f THEN "err_format" ELSE "none"
       IN IF mism = "none"
          THEN [s EXCEPT !.res = "ok", !.view = s.data, !.vholes = IF IsRaw(f) /\ s.holesEx THEN s.holes ELSE {}, !.cur = f]
          ELSE IF entry = "plain" THEN [s EXCEPT !.res = mism, !.cur = "-"]
          ELSE Fresh(s, v, f, entry, D)

Tag(gg, dd) == [gg EXCEPT !.dev = gg.dev \cup dd]

Step(op, args, s, gg) ==
  /\ d' = s /\ g' = gg /\ n' = n + 1
  /\ hist' = Append(hist, [op |-> op, args |-> args, res |-> s.res, must |-> gg.must,
                           exp |-> [view |-> gg.view, holes |-> gg.vholes], impl |-> [view |-> s.view, holes |-> s.vholes],
                           dev |-> gg.dev, holesEx |-> s.holesEx])

AImport ==
  /\ n < Depth
  /\ \E entry \in {"plain", "forced"}, v \in Versions, f \in Formats :
       LET s == ImportOp(d, entry, v, f, Dev)
           dd == {e \in Dev : ImportOp(d, entry, v, f, Dev \ {e}) # s}
           match == g.ex /\ g.uver = v /\ g.ufmt = f
           gg == IF ~g.ex THEN [g EXCEPT !.ex = TRUE, !.uver = v, !.ufmt = f, !.data = <<>>, !.holes = {}, !.must = "ok", !.view = <<>>, !.vholes = {}]
                 ELSE IF match THEN [g EXCEPT !.must = "ok", !.view = g.data, !.vholes = g.holes]
                 ELSE IF entry = "plain" THEN [g EXCEPT !.must = "err"]
                 ELSE [g EXCEPT !.uver = v, !.ufmt = f, !.data = <<>>, !.holes = {}, !.must = "ok", !.view = <<>>, !.vholes = {}]
       IN Step("import", <<entry, v, f>>, s, Tag(gg, dd))

\* push two values and flush (vector and database)
AFill ==
  /\ n < Depth /\ d.cur # "-" /\ d.res = "ok" /\ Len(d.view) < 4
  /\ LET xs == <<g.nxt, g.nxt + 1>> IN
     Step("fill", <<g.nxt>>, [d EXCEPT !.data = d.view \o xs, !.view = d.view \o xs, !.res = "ok"],
          [g EXCEPT !.data = g.view \o xs, !.view = g.view \o xs, !.nxt = g.nxt + 2, !.must = "ok"])

\* delete the first slot and flush (raw formats): creates the auxiliary holes region
AHole ==
  /\ n < Depth /\ d.cur # "-" /\ d.res = "ok" /\ IsRaw(d.cur) /\ Len(d.view) > 0 /\ 0 \notin d.vholes
  /\ Step("hole", <<>>, [d EXCEPT !.holes = d.vholes \cup {0}, !.vholes = d.vholes \cup {0}, !.holesEx = TRUE, !.res = "ok"],
          [g EXCEPT !.holes = g.vholes \cup {0}, !.vholes = g.vholes \cup {0}, !.must = "ok"])

Next == AImport \/ AFill \/ AHole
Spec == Init /\ [][Next]_vars

Untagged == g.dev = {}
\* C14 on the model: outcome class and returned contents are what the reference says
ImportOK == (Untagged /\ n > 0) =>
              /\ (g.must = "ok" => d.res = "ok" /\ d.view = g.view /\ d.vholes = g.vholes)
              /\ (g.must = "err" => d.res \in {"err_version", "err_format"})
\* a refused plain import leaves the stored data untouched (the reference still matches on a later matching import)
DepthOK == n <= Depth
HView == <<d, g>>
==========================================================================
