------------------------------ MODULE VecConc ------------------------------
(***************************************************************************)
(* C09: one writer appends to a stored vector and writes it while readers  *)
(* read through read-only clones.                                          *)
(*                                                                         *)
(* The writer's write() and the readers' len / fold are split into the     *)
(* code's critical sections (one action per segment that starts at a lock  *)
(* request at which the other threads can be scheduled, plus one per       *)
(* closure call of a fold: "yield"):                                       *)
(*   raw   write: op | mmap:R data copy | regions:R region length + length *)
(*         publication            (raw/inner/read_write/any_stored_vec.rs) *)
(*   cmp   write: op | pages:R plan | [mmap:R decode partial page] |       *)
(*         mmap:R data copy | regions:R region length | pages:W page index *)
(*         + length publication   (compressed/inner/read_write/...)        *)
(*   read: op load published length | meta:R placement snapshot | mmap:R   *)
(*         guard (+ first element, raw) | pages:R guard + first page (cmp) *)
(*         | yield ... next element / next page                            *)
(* The data region is large enough for every write (the growth and         *)
(* relocation paths of the region are C10's model, RawConc).               *)
(*                                                                         *)
(* An element of the model is a block of B real elements; PP elements make *)
(* a page.  The writer pushes 1, 2, 3, ...: element i must read i + 1.     *)
(* cmp cells: a raw (partial) page of c elements occupies c cells holding  *)
(* the values; a full page is compressed into one cell <<"z", values>>.    *)
(*                                                                         *)
(* Dev: D18 = the slow path re-encodes the partial last page in place,     *)
(* over bytes that published page entries still describe.  D37 = readers   *)
(* take the placement snapshot before the page-index guard (matters when   *)
(* the region relocates in between: Reloc = TRUE, model checking only).    *)
(***************************************************************************)
EXTENDS Integers, Sequences, FiniteSets, TLC, FiniteSetsExt, Json

CONSTANTS Kind, PP, Batches, MaxWrites, Readers, MaxReads, ReadOps, PreLen, Dev, Depth, HistK, Reloc

VARIABLES cells, rlen, pages, pub, pguards, w, rd, dev, n, hist, last, old, ext
vars == <<cells, rlen, pages, pub, pguards, w, rd, dev, n, hist, last, old, ext>>
\* cells = the region's current extent; old = the extents it has left (kept intact: nothing reuses them in this model); ext = Len(old)

Raw == Kind = "raw"
Junk == -1
WIdle == [pc |-> "idle", k |-> 0, pushed |-> 0, spi |-> 0, trunc |-> 0, part |-> <<>>, fast |-> FALSE, vals |-> <<>>, stored |-> 0, reloc |-> FALSE, newcells |-> <<>>]
RIdle == [pc |-> "idle", k |-> 0, op |-> "-", len |-> 0, snap |-> 0, pos |-> 0, to |-> 0, pgs |-> <<>>, dpage |-> 0, buf |-> <<>>, got |-> <<>>, maxlen |-> 0, sext |-> 0]
Writer == 0

Min2(a, b) == IF a < b THEN a ELSE b

(***************************************************************************)
(* page index                                                              *)
(***************************************************************************)
PagesLen(ps) == IF ps = <<>> THEN 0 ELSE (Len(ps) - 1) * PP + ps[Len(ps)].n
NextStart(ps) == IF ps = <<>> THEN 0 ELSE ps[Len(ps)].start + ps[Len(ps)].c
\* a cell is <<"v", value>>, <<"z", values of a compressed page>> or <<"j">> (never written)
JunkCell == <<"j">>
Cell(cs, i) == IF i < Len(cs) THEN cs[i + 1] ELSE JunkCell
PutCells(cs, at, xs) == [i \in 1..Max({Len(cs), at + Len(xs)}) |-> IF i > at /\ i <= at + Len(xs) THEN xs[i - at] ELSE IF i <= Len(cs) THEN cs[i] ELSE JunkCell]
V(xs) == [i \in 1..Len(xs) |-> <<"v", xs[i]>>]
\* <<"m", x>>: bytes that an in-place re-encoding may or may not have overwritten (the compressed size is not modelled):
\* read as -(x + 1), "x or garbage"
Val(c) == IF c[1] = "v" THEN c[2] ELSE IF c[1] = "m" THEN 0 - (c[2] + 1) ELSE Junk
Maybe(cs, lo, hi) == [i \in 1..Len(cs) |-> IF i - 1 >= lo /\ i - 1 < hi /\ cs[i][1] = "v" THEN <<"m", cs[i][2]>> ELSE cs[i]]

\* what decoding page p yields from the bytes now in the region (reads are not bounded by the reader's length snapshot:
\* raw sources use Reader::prefixed, compressed ones Reader::unchecked_read)
Decode(cs, p, snap) ==
  IF p.raw
  THEN [i \in 1..p.n |-> Val(Cell(cs, p.start + i - 1))]
  ELSE LET x == Cell(cs, p.start) IN
       IF x[1] = "z" /\ Len(x[2]) = p.n THEN x[2] ELSE [i \in 1..p.n |-> Junk]

\* encode values (a tail starting at a page boundary) into cells and page entries
RECURSIVE Encode(_, _)
Encode(vals, start) ==
  IF vals = <<>> THEN [cells |-> <<>>, pages |-> <<>>]
  ELSE IF Len(vals) >= PP
       THEN LET rest == Encode(SubSeq(vals, PP + 1, Len(vals)), start + 1) IN
            [cells |-> << <<"z", SubSeq(vals, 1, PP)>> >> \o rest.cells,
             pages |-> << [start |-> start, c |-> 1, n |-> PP, raw |-> FALSE] >> \o rest.pages]
       ELSE [cells |-> V(vals), pages |-> << [start |-> start, c |-> Len(vals), n |-> Len(vals), raw |-> TRUE] >>]

(***************************************************************************)
(* history                                                                 *)
(***************************************************************************)
LastK(e) == LET l == Append(last, e) IN IF Len(l) > HistK THEN SubSeq(l, Len(l) - HistK + 1, Len(l)) ELSE l
\* <<thread, label, next label, op, argument, op ends, observation, tags>>
Log(t, lab, nl, op, arg, ends, obs) ==
  /\ n' = n + 1
  /\ last' = LastK(<<t, lab>>)
  /\ hist' = Append(hist, <<t, lab, nl, op, arg, ends, obs, dev'>>)

(***************************************************************************)
(* Writer                                                                  *)
(***************************************************************************)
WStart ==
  /\ w.pc = "idle" /\ w.k < MaxWrites
  /\ \E b \in Batches :
       /\ w' = [WIdle EXCEPT !.k = w.k, !.pushed = b, !.stored = pub, !.pc = IF Raw THEN "w_data" ELSE "c_plan"]
       /\ UNCHANGED <<old, ext, cells, rlen, pages, pub, pguards, rd, dev>>
       /\ Log(Writer, "op", IF Raw THEN "mmap:R" ELSE "pages:R", "write", b, FALSE, 0)

NewVals == [i \in 1..w.pushed |-> w.stored + i]

\* ---- raw
\* Reloc (TLC only, not replayed): the region may relocate for this write: the data goes to a new extent (old contents copied),
\* the region's placement switches with the length update
WData ==
  /\ w.pc = "w_data"
  /\ \E rl \in (IF Reloc THEN BOOLEAN ELSE {FALSE}) :
       IF rl THEN /\ w' = [w EXCEPT !.pc = "w_len", !.reloc = TRUE, !.newcells = PutCells(SubSeq(cells, 1, Min2(w.stored, Len(cells))), w.stored, V(NewVals))]
                  /\ UNCHANGED cells
             ELSE /\ cells' = PutCells(cells, w.stored, V(NewVals))
                  /\ w' = [w EXCEPT !.pc = "w_len"]
  /\ UNCHANGED <<old, ext, rlen, pages, pub, pguards, rd, dev>>
  /\ Log(Writer, "mmap:R", "regions:R", "write", w.pushed, FALSE, 0)

WLen ==
  /\ w.pc = "w_len"
  /\ rlen' = w.stored + w.pushed
  /\ pub' = w.stored + w.pushed
  /\ w' = [WIdle EXCEPT !.k = w.k + 1]
  /\ IF w.reloc THEN old' = Append(old, cells) /\ cells' = w.newcells /\ ext' = ext + 1 ELSE UNCHANGED <<old, ext, cells>>
  /\ UNCHANGED <<pages, pguards, rd, dev>>
  /\ Log(Writer, "regions:R", "op", "write", w.pushed, TRUE, 0)

\* ---- compressed
CPlan ==
  /\ w.pc = "c_plan"
  /\ LET spi == w.stored \div PP                     \* starting page index (0-based)
         partial == w.stored % PP
         hasPart == spi < Len(pages) /\ partial # 0
         page == IF spi < Len(pages) THEN pages[spi + 1] ELSE [start |-> NextStart(pages), c |-> 0, n |-> 0, raw |-> TRUE]
         fast == hasPart /\ page.raw /\ partial = page.n /\ partial + w.pushed < PP
     IN /\ w' = [w EXCEPT !.spi = spi, !.trunc = page.start, !.part = IF hasPart THEN <<page, partial>> ELSE <<>>, !.fast = fast,
                          !.pc = IF fast \/ ~hasPart THEN "c_data" ELSE "c_dec"]
        /\ UNCHANGED <<old, ext, cells, rlen, pages, pub, pguards, rd, dev>>
        /\ Log(Writer, "pages:R", "mmap:R", "write", w.pushed, FALSE, 0)

CDecode ==
  /\ w.pc = "c_dec"
  /\ w' = [w EXCEPT !.vals = SubSeq(Decode(cells, w.part[1], rlen), 1, w.part[2]), !.pc = "c_data"]
  /\ UNCHANGED <<old, ext, cells, rlen, pages, pub, pguards, rd, dev>>
  /\ Log(Writer, "mmap:R", "mmap:R", "write", w.pushed, FALSE, 0)

\* where the data goes: the fast path appends behind the raw page; the slow path re-encodes from the partial page's start
\* (D18: in place; intended: behind everything the published index still describes)
CData ==
  /\ w.pc = "c_data"
  /\ \E rl \in (IF Reloc THEN BOOLEAN ELSE {FALSE}) :
     IF w.fast
     THEN LET at == w.part[1].start + w.part[1].c
              nc == PutCells(IF rl THEN SubSeq(cells, 1, Min2(at, Len(cells))) ELSE cells, at, V(NewVals)) IN
          /\ IF rl THEN UNCHANGED cells ELSE cells' = nc
          /\ w' = [w EXCEPT !.pc = "c_len", !.trunc = at + w.pushed, !.reloc = rl, !.newcells = IF rl THEN nc ELSE <<>>]
          /\ dev' = dev
     ELSE LET inplace == "D18" \in Dev \/ w.part = <<>>
              at == IF inplace THEN w.trunc ELSE NextStart(pages)
              enc == Encode(w.vals \o NewVals, at)
              oldEnd == IF w.part = <<>> THEN 0 ELSE w.part[1].start + w.part[1].c
              nc == PutCells(IF rl THEN SubSeq(cells, 1, Min2(at, Len(cells))) ELSE cells, at, enc.cells)
          IN /\ IF rl THEN UNCHANGED cells
                ELSE cells' = IF inplace /\ w.part # <<>> THEN Maybe(nc, at + Len(enc.cells), oldEnd) ELSE nc
             /\ w' = [w EXCEPT !.pc = "c_len", !.vals = enc.pages, !.trunc = at + Len(enc.cells), !.reloc = rl, !.newcells = IF rl THEN nc ELSE <<>>]
             /\ dev' = IF "D18" \in Dev /\ w.part # <<>> THEN dev \cup {"D18"} ELSE dev
  /\ UNCHANGED <<old, ext, rlen, pages, pub, pguards, rd>>
  /\ Log(Writer, "mmap:R", "regions:R", "write", w.pushed, FALSE, 0)

CLen ==
  /\ w.pc = "c_len"
  /\ rlen' = w.trunc
  /\ w' = [w EXCEPT !.pc = "c_pages"]
  /\ IF w.reloc THEN old' = Append(old, cells) /\ cells' = w.newcells /\ ext' = ext + 1 ELSE UNCHANGED <<old, ext, cells>>
  /\ UNCHANGED <<pages, pub, pguards, rd, dev>>
  /\ Log(Writer, "regions:R", "pages:W", "write", w.pushed, FALSE, 0)

CPages ==
  /\ w.pc = "c_pages" /\ pguards = 0
  /\ pages' = IF w.fast
              THEN [pages EXCEPT ![w.spi + 1] = [start |-> w.part[1].start, c |-> w.part[1].c + w.pushed, n |-> w.part[2] + w.pushed, raw |-> TRUE]]
              ELSE SubSeq(pages, 1, w.spi) \o w.vals
  /\ pub' = w.stored + w.pushed
  /\ w' = [WIdle EXCEPT !.k = w.k + 1]
  /\ UNCHANGED <<old, ext, cells, rlen, pguards, rd, dev>>
  /\ Log(Writer, "pages:W", "op", "write", w.pushed, TRUE, 0)

\* the published length never exceeds what is readable: data in place, region long enough, page index covering it
Readable ==
  IF Raw THEN pub <= rlen /\ \A i \in 0..(pub - 1) : Val(Cell(cells, i)) = i + 1
  ELSE /\ pub <= PagesLen(pages)
       /\ \A pi \in 1..Len(pages) : \A j \in 1..pages[pi].n :
            (pi - 1) * PP + j <= pub => Decode(cells, pages[pi], rlen)[j] = (pi - 1) * PP + j

(***************************************************************************)
(* Readers (read-only clones)                                              *)
(***************************************************************************)
RLen(r) ==
  /\ "len" \in ReadOps /\ rd[r].pc = "idle" /\ rd[r].k < MaxReads
  /\ rd' = [rd EXCEPT ![r] = [RIdle EXCEPT !.k = rd[r].k + 1, !.maxlen = pub]]
  /\ UNCHANGED <<old, ext, cells, rlen, pages, pub, pguards, w, dev>>
  /\ Log(r, "op", "op", "len", 0, TRUE, <<"len", pub, Readable>>)

\* fold over [from, L) where L is the length this reader observed last: the closure is called once per element
RStart(r) ==
  /\ "fold" \in ReadOps /\ rd[r].pc = "idle" /\ rd[r].k < MaxReads /\ rd[r].maxlen > 0
  /\ \E from \in {0, rd[r].maxlen - 1} :
       /\ rd' = [rd EXCEPT ![r] = [RIdle EXCEPT !.k = rd[r].k, !.op = "fold", !.len = rd[r].maxlen, !.pos = from, !.to = rd[r].maxlen,
                                                !.pc = "r_snap", !.maxlen = rd[r].maxlen]]
       /\ UNCHANGED <<old, ext, cells, rlen, pages, pub, pguards, w, dev>>
       /\ Log(r, "op", "meta:R", "fold", from, FALSE, 0)

RSnap(r) ==
  /\ rd[r].pc = "r_snap"
  /\ rd' = [rd EXCEPT ![r].snap = rlen, ![r].sext = ext, ![r].pc = "r_map"]
  /\ UNCHANGED <<old, ext, cells, rlen, pages, pub, pguards, w, dev>>
  /\ Log(r, "meta:R", "mmap:R", "fold", 0, FALSE, 0)

Finish(r, got) == [RIdle EXCEPT !.k = rd[r].k + 1, !.maxlen = rd[r].maxlen]
FoldObs(r, got) == <<"fold", rd[r].len, rd[r].pos - Len(got), got>>

\* the extent a reader's placement snapshot points at
RCells(se) == IF se = ext THEN cells ELSE old[se + 1]

\* raw: element at pos read from the mapping (bounded by the placement snapshot), then the closure is called
RawNext(r, lab) ==
  LET x == rd[r] IN
  IF x.pos >= x.to
  THEN /\ rd' = [rd EXCEPT ![r] = Finish(r, x.got)]
       /\ UNCHANGED pguards
       /\ Log(r, lab, "op", "fold", 0, TRUE, FoldObs(r, x.got))
  ELSE LET v == Val(Cell(RCells(x.sext), x.pos)) IN
       /\ rd' = [rd EXCEPT ![r].got = Append(x.got, v), ![r].pos = x.pos + 1, ![r].pc = "r_yield"]
       /\ UNCHANGED pguards
       /\ Log(r, lab, "yield", "fold", 0, FALSE, 0)

\* compressed: page holding pos decoded on first use (the page index is the one frozen by the reader's guard)
CmpNext(r, lab, pgs, takeGuard) ==
  LET x0 == rd[r]
      \* intended: the placement is (re)read once the page-index guard is held; D37: the snapshot taken before the guard is used
      x == IF takeGuard /\ "D37" \notin Dev THEN [x0 EXCEPT !.sext = ext] ELSE x0 IN
  IF x.pos >= x.to \/ (x.pos \div PP) >= Len(pgs)
  THEN /\ rd' = [rd EXCEPT ![r] = Finish(r, x.got)]
       /\ pguards' = IF takeGuard THEN pguards ELSE pguards - 1
       /\ Log(r, lab, "op", "fold", 0, TRUE, FoldObs(r, x.got))
  ELSE LET pi == x.pos \div PP
           buf == IF x.dpage = pi + 1 /\ ~takeGuard THEN x.buf ELSE Decode(RCells(x.sext), pgs[pi + 1], x.snap)
           off == x.pos % PP
           short == off >= Len(buf)
       IN IF short
          THEN /\ rd' = [rd EXCEPT ![r] = Finish(r, x.got)]
               /\ pguards' = IF takeGuard THEN pguards ELSE pguards - 1
               /\ Log(r, lab, "op", "fold", 0, TRUE, FoldObs(r, x.got))
          ELSE /\ rd' = [rd EXCEPT ![r].got = Append(x.got, buf[off + 1]), ![r].pos = x.pos + 1, ![r].pc = "r_yield", ![r].pgs = pgs,
                                   ![r].dpage = pi + 1, ![r].buf = buf, ![r].sext = x.sext]
               /\ pguards' = IF takeGuard THEN pguards + 1 ELSE pguards
               /\ Log(r, lab, "yield", "fold", 0, FALSE, 0)

RMap(r) ==
  /\ rd[r].pc = "r_map"
  /\ UNCHANGED <<old, ext, cells, rlen, pages, pub, w, dev>>
  /\ IF Raw THEN RawNext(r, "mmap:R")
     ELSE /\ rd' = [rd EXCEPT ![r].pc = "r_pages"] /\ UNCHANGED pguards
          /\ Log(r, "mmap:R", "pages:R", "fold", 0, FALSE, 0)

RPages(r) ==
  /\ rd[r].pc = "r_pages"
  /\ UNCHANGED <<old, ext, cells, rlen, pages, pub, w, dev>>
  /\ CmpNext(r, "pages:R", pages, TRUE)

RYield(r) ==
  /\ rd[r].pc = "r_yield"
  /\ UNCHANGED <<old, ext, cells, rlen, pages, pub, w, dev>>
  /\ IF Raw THEN RawNext(r, "yield") ELSE CmpNext(r, "yield", rd[r].pgs, FALSE)

(***************************************************************************)
Init ==
  /\ LET vals == [i \in 1..PreLen |-> i]
         enc == Encode(vals, 0)
     IN /\ cells = IF Raw THEN V(vals) ELSE enc.cells
        /\ pages = IF Raw THEN <<>> ELSE enc.pages
        /\ rlen = IF Raw THEN PreLen ELSE Len(enc.cells)
  /\ pub = PreLen /\ pguards = 0 /\ w = WIdle /\ rd = [r \in Readers |-> RIdle]
  /\ dev = {} /\ n = 0 /\ hist = <<>> /\ last = <<>> /\ old = <<>> /\ ext = 0

Next == \/ WStart \/ WData \/ WLen \/ CPlan \/ CDecode \/ CData \/ CLen \/ CPages
        \/ \E r \in Readers : RLen(r) \/ RStart(r) \/ RSnap(r) \/ RMap(r) \/ RPages(r) \/ RYield(r)
Spec == Init /\ [][Next]_vars

(***************************************************************************)
(* C09                                                                     *)
(***************************************************************************)
\* everything a reader has been given so far is the writer's sequence, from the position it started at
GotOk(x) == \A i \in 1..Len(x.got) : x.got[i] = (x.pos - Len(x.got)) + i
ReaderPrefix == \A r \in Readers : GotOk(rd[r])
\* a finished fold delivered every element of [from, observed length), each with the writer's value (on the history's last step)
Complete == (n > 0 /\ hist[Len(hist)][6] /\ hist[Len(hist)][4] = "fold") =>
              LET o == hist[Len(hist)][7] IN
              /\ Len(o[4]) = o[2] - o[3]
              /\ \A i \in 1..Len(o[4]) : o[4][i] = o[3] + i
\* C09 "no read blocks forever": under weak fairness every started operation ends (the page-index guard of a reader delays the
\* writer's page-index update, never the other way round for ever); checked without state constraint and without VIEW
FairSpec == Spec /\ WF_vars(Next)
ReadsEnd == \A r \in Readers : (rd[r].pc # "idle") ~> (rd[r].pc = "idle")
WritesEnd == (w.pc # "idle") ~> (w.pc = "idle")
DepthOK == n <= Depth
HView == <<cells, rlen, pages, pub, pguards, w, rd, dev, last, old, ext>>
Emit == n > 0 => PrintT(<<"REPLAY", ToJson(hist)>>)
=============================================================================
