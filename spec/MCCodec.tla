----------------------------- MODULE MCCodec -----------------------------
EXTENDS Codec, Json
Emit == PrintT(<<"REPLAY", ToJson([case |-> c, expect |-> Decode(c), open_safe |-> IF c.k = "slot" THEN SlotOpenSafeP(c) ELSE TRUE])>>)
==========================================================================
