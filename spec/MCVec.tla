------------------------------ MODULE MCVec ------------------------------
EXTENDS Vec, Json
DepthOK == n <= Depth
\* emission for replay: one line per distinct state (BFS-tree path)
Emit == (n > 0) => PrintT(<<"REPLAY", ToJson(hist)>>)
AllDev == {"D2", "D3", "D4", "D6", "D13"}
NoDev == {}
==========================================================================
