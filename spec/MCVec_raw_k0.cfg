SPECIFICATION Spec
CONSTANTS
  Kind = "raw"
  K = 0
  PP = 2
  MaxLen = 3
  MaxStamp = 2
  Depth = 5
  Dev <- AllDev
  Ops = {"push","truncate","update","delete","fill","write","reimport","reset"}
VIEW HView
CONSTRAINT DepthOK
INVARIANT TypeOK
INVARIANT ViewEq
INVARIANT MustOk
INVARIANT RWInBounds
CHECK_DEADLOCK FALSE
