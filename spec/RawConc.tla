------------------------------ MODULE RawConc ------------------------------
(***************************************************************************)
(* C10: concurrent work on distinct regions of one rawdb database.         *)
(*                                                                         *)
(* Worker threads own one region each and run create / append / truncate / *)
(* reader operations on it; a maintenance thread runs flush and compact.   *)
(* Every operation is split into the critical sections of the code: one    *)
(* action per segment that starts at a lock acquisition at which another   *)
(* thread can be scheduled in between (region.rs write_with, lib.rs        *)
(* create_region_if_needed / set_min_len / flush / punch_holes, reader.rs).*)
(* The label of an action is the lock request the real thread is parked at *)
(* before the segment runs; the replay harness (vh concmodel) drives real  *)
(* threads through the lock tap's gate with exactly these labels.          *)
(*                                                                         *)
(* Cells are pages (P = 1).  Contents are tokens (thread * 10 + counter),  *)
(* 0 = never written / punched.                                            *)
(*                                                                         *)
(* Dev: deviations of the code from the intended design                    *)
(*   D8  flush promotes a pending extent that a live reader still maps     *)
(*   D35 punch_holes punches a region's reserve while its owner is between *)
(*       the data copy and the length update                               *)
(*   D36 punch_holes is not held off by live readers (a truncated tail or a *)
(*       promoted hole that a reader still maps is zeroed)                 *)
(*   D19 (repaired in the code; kept to show the model sees it) no growth  *)
(*       after the allocation in create_region_if_needed                   *)
(***************************************************************************)
EXTENDS Integers, Sequences, FiniteSets, TLC, FiniteSetsExt, Json

CONSTANTS Workers, Maint, Sizes, MaxOps, MaxMaint, Floor, InitLen, Setup, PreLen, Ops, Dev, Depth, HistK

VARIABLES reg, holes, pend, resv, fileLen, disk, readers, th, ref, rdr, dev, n, hist, last
vars == <<reg, holes, pend, resv, fileLen, disk, readers, th, ref, rdr, dev, n, hist, last>>

Threads == Workers \cup {Maint}
None == [none |-> TRUE]
IsRdr(x) == "start" \in DOMAIN x
Max2(a, b) == IF a > b THEN a ELSE b

NoReg == [ex |-> FALSE, start |-> 0, len |-> 0, res |-> 0]
Idle == [pc |-> "idle", op |-> "-", k |-> 0, sstart |-> 0, slen |-> 0, sres |-> 0, nlen |-> 0, nres |-> 0, nstart |-> 0,
         target |-> 0, tok |-> 0, arg |-> 0]

(***************************************************************************)
(* Layout (layout.rs)                                                      *)
(***************************************************************************)
HoleSet(hs) == {hs[i] : i \in 1..Len(hs)}
LayoutLen(rg, hs, pd, rv) ==
  LET ends == {h[1] + h[2] : h \in HoleSet(hs)} \cup {p[1] + p[2] : p \in pd} \cup {p[1] + p[2] : p \in rv}
              \cup {rg[t].start + rg[t].res : t \in {x \in Workers : rg[x].ex}}
  IN IF ends = {} THEN 0 ELSE Max(ends)
CurLen == LayoutLen(reg, holes, pend, resv)

RemoveHole(hs, start) == SelectSeq(hs, LAMBDA h : h[1] # start)
HoleAt(hs, start) == IF \E h \in HoleSet(hs) : h[1] = start THEN (CHOOSE h \in HoleSet(hs) : h[1] = start)[2] ELSE 0
\* find_smallest_adequate_hole: smallest size >= min, first inserted among that size
BestFit(hs, minSize) ==
  LET ok == {i \in 1..Len(hs) : hs[i][2] >= minSize} IN
  IF ok = {} THEN 0
  ELSE LET sz == Min({hs[i][2] : i \in ok}) IN Min({j \in ok : hs[j][2] = sz})
\* remove_or_compress_hole
TakeFromHole(hs, start, by) ==
  LET size == HoleAt(hs, start)
      h1 == RemoveHole(hs, start)
  IN IF size > by THEN Append(h1, <<start + by, size - by>>) ELSE h1

RECURSIVE Promote(_, _)
Promote(hs, ps) ==
  IF ps = {} THEN hs
  ELSE LET p == CHOOSE q \in ps : \A q2 \in ps : q[1] <= q2[1]
           before == {h \in HoleSet(hs) : h[1] + h[2] = p[1]}
           hb == IF before = {} THEN <<p[1], 0>> ELSE CHOOSE h \in before : TRUE
           h1 == IF before = {} THEN hs ELSE RemoveHole(hs, hb[1])
           fstart == hb[1]
           size1 == p[2] + hb[2]
           after == HoleAt(h1, fstart + size1)
           h2 == IF after > 0 THEN RemoveHole(h1, fstart + size1) ELSE h1
       IN Promote(Append(h2, <<fstart, size1 + after>>), ps \ {p})

\* intended design: an extent that a live reader still maps stays pending (D8 is its absence)
Pinned(p) == \E t \in Workers : IsRdr(rdr[t]) /\ p[1] < rdr[t].start + rdr[t].len /\ rdr[t].start < p[1] + p[2]
PromoteKeep(D) == IF "D8" \in D THEN {} ELSE {p \in pend : Pinned(p)}

IsLast(t) ==
  LET starts == {reg[x].start : x \in {y \in Workers : reg[y].ex}} IN
  /\ reg[t].ex
  /\ reg[t].start = Max(starts)
  /\ \A h \in HoleSet(holes) : reg[t].start > h[1]
  /\ \A p \in pend : reg[t].start > p[1]
  /\ \A p \in resv : reg[t].start > p[1]

Grow(cur, want) == IF cur >= want THEN cur ELSE Max2(Max2(want, 2 * cur), Floor)

NewReserved(res, newLen) ==
  LET RECURSIVE Dbl(_)
      Dbl(x) == IF newLen > x THEN Dbl(2 * x) ELSE x
  IN Dbl(res)

Cell(d, c) == IF c \in DOMAIN d THEN d[c] ELSE 0
Put(d, at, k, v) == [c \in (DOMAIN d) \cup (at..(at + k - 1)) |-> IF c >= at /\ c < at + k THEN v ELSE d[c]]
CopyCells(d, src, dst, k) == [c \in (DOMAIN d) \cup (dst..(dst + k - 1)) |-> IF c >= dst /\ c < dst + k THEN Cell(d, src + (c - dst)) ELSE d[c]]
Zero(d, at, k) == [c \in {x \in DOMAIN d : x < at \/ x >= at + k} |-> d[c]]
Content(d, rg) == [i \in 1..rg.len |-> Cell(d, rg.start + i - 1)]

(***************************************************************************)
(* Labels: the lock request a thread is parked at before its next segment  *)
(***************************************************************************)
Label(pc) ==
  CASE pc \in {"c_grow", "c_grow2", "w_gf", "w_gf2"} -> "mmap:W"
    [] pc \in {"c_alloc", "w_grow", "w_move", "f_prom"} -> "layout:W"
    [] pc \in {"w_data", "w_copy", "w_rdata", "r_acq"} -> "mmap:R"
    [] pc \in {"w_len", "t_set"} -> "regions:R"
    [] pc = "p_punch" -> "layout:R"
    [] OTHER -> "op"

Quiet(thn) == \A t \in Threads : thn[t].pc = "idle"
Alloc(rg, hs, pd, rv, fl) ==
  <<{<<t, rg[t].start, rg[t].len, rg[t].res>> : t \in {x \in Workers : rg[x].ex}}, HoleSet(hs), pd, rv, fl>>

LastK(e) == LET l == Append(last, e) IN IF Len(l) > HistK THEN SubSeq(l, Len(l) - HistK + 1, Len(l)) ELSE l

\* bookkeeping common to all steps.  lab = label consumed, ends = the operation completes in this step
\* a history step is the tuple <<thread, label, next label, op, op counter, argument, op ends, observation, quiescent, layout, tags>>
\* (layout only at quiescence; positional to keep the emitted behaviours short)
Rec(t, lab, nl, op, k, arg, ends, obs, thn, al, dv) == <<t, lab, nl, op, k, arg, ends, obs, Quiet(thn), IF Quiet(thn) THEN al ELSE 0, dv>>
Log(t, lab, ends, obs) ==
  /\ n' = n + 1
  /\ last' = LastK(<<t, lab>>)
  /\ hist' = Append(hist, Rec(t, lab, Label(th'[t].pc), (IF th[t].pc = "idle" THEN th'[t].op ELSE th[t].op), th[t].k,
                               (IF th[t].pc = "idle" THEN th'[t].arg ELSE th[t].arg), ends, obs, th',
                               Alloc(reg', holes', pend', resv', fileLen'), dev'))

NoObs == 0
\* what the owner sees of its region at the end of one of its operations: exp = in isolation, impl = the model as the code is
RegObs(t) == <<"region", ref'[t], Content(disk', reg'[t])>>

(***************************************************************************)
(* create_region_if_needed                                                 *)
(***************************************************************************)
StartCreate(t) ==
  /\ "create" \in Ops /\ th[t].pc = "idle" /\ ~reg[t].ex /\ th[t].k < MaxOps
  /\ LET noHole == BestFit(holes, 1) = 0
         want == CurLen + 1
     IN th' = [th EXCEPT ![t] = [Idle EXCEPT !.op = "create", !.k = th[t].k,
                                              !.pc = IF noHole /\ fileLen < want THEN "c_grow" ELSE "c_alloc",
                                              !.target = IF noHole THEN want ELSE 0]]
  /\ UNCHANGED <<reg, holes, pend, resv, fileLen, disk, readers, ref, rdr, dev>>
  /\ Log(t, "op", FALSE, NoObs)

\* set_min_len under mmap + file write locks (re-checked under the lock)
GrowFile(t, next) ==
  /\ readers = 0
  /\ fileLen' = Grow(fileLen, th[t].target)
  /\ th' = [th EXCEPT ![t].pc = next]
  /\ UNCHANGED <<reg, holes, pend, resv, disk, readers, ref, rdr, dev>>
  /\ Log(t, "mmap:W", FALSE, NoObs)

EndOp(t) == [Idle EXCEPT !.k = th[t].k + 1]

CreateAlloc(t) ==
  /\ th[t].pc = "c_alloc"
  /\ LET bi == BestFit(holes, 1)
         start == IF bi > 0 THEN holes[bi][1] ELSE CurLen
         more == "D19" \notin Dev /\ fileLen < start + 1
     IN /\ holes' = IF bi > 0 THEN TakeFromHole(holes, start, 1) ELSE holes
        /\ reg' = [reg EXCEPT ![t] = [ex |-> TRUE, start |-> start, len |-> 0, res |-> 1]]
        /\ th' = [th EXCEPT ![t] = IF more THEN [th[t] EXCEPT !.pc = "c_grow2", !.target = start + 1] ELSE EndOp(t)]
        /\ ref' = [ref EXCEPT ![t] = <<>>]
        /\ UNCHANGED <<pend, resv, fileLen, disk, readers, rdr, dev>>
        /\ Log(t, "layout:W", ~more, IF more THEN NoObs ELSE RegObs(t))

CreateGrow2(t) ==
  /\ th[t].pc = "c_grow2" /\ readers = 0
  /\ fileLen' = Grow(fileLen, th[t].target)
  /\ th' = [th EXCEPT ![t] = EndOp(t)]
  /\ UNCHANGED <<reg, holes, pend, resv, disk, readers, ref, rdr, dev>>
  /\ Log(t, "mmap:W", TRUE, RegObs(t))

(***************************************************************************)
(* Region::write (append k pages of a fresh token)                         *)
(***************************************************************************)
StartAppend(t) ==
  /\ "append" \in Ops /\ th[t].pc = "idle" /\ reg[t].ex /\ th[t].k < MaxOps
  /\ \E k \in Sizes :
       LET r == reg[t]
           nl == r.len + k
           fits == nl <= r.res
       IN th' = [th EXCEPT ![t] = [Idle EXCEPT !.op = "append", !.k = th[t].k, !.tok = t * 10 + th[t].k + 1,
                                                !.sstart = r.start, !.slen = r.len, !.sres = r.res, !.nlen = nl,
                                                !.nres = IF fits THEN r.res ELSE NewReserved(r.res, nl),
                                                !.nstart = r.start, !.arg = k,
                                                !.pc = IF fits THEN "w_data" ELSE "w_grow"]]
  /\ UNCHANGED <<reg, holes, pend, resv, fileLen, disk, readers, ref, rdr, dev>>
  /\ Log(t, "op", FALSE, NoObs)

Amount(t) == th[t].nlen - th[t].slen
\* Database::copy returns at once (no lock) when there is nothing to copy
CopyPc(x) == IF x.slen = 0 THEN "w_rdata" ELSE "w_copy"

WriteGrow(t) ==
  /\ th[t].pc = "w_grow"
  /\ LET x == th[t]
         added == x.nres - x.sres
         adj == HoleAt(holes, x.sstart + x.sres)
         bi == BestFit(holes, x.nres)
     IN IF IsLast(t)
        THEN /\ reg' = [reg EXCEPT ![t].res = x.nres]
             /\ th' = [th EXCEPT ![t].pc = IF fileLen >= x.sstart + x.nres THEN "w_data" ELSE "w_gf", ![t].target = x.sstart + x.nres]
             /\ UNCHANGED <<holes, resv>>
        ELSE IF adj >= added
        THEN /\ holes' = TakeFromHole(holes, x.sstart + x.sres, added)
             /\ reg' = [reg EXCEPT ![t].res = x.nres]
             /\ th' = [th EXCEPT ![t].pc = "w_data"]
             /\ UNCHANGED resv
        ELSE IF bi > 0
        THEN /\ holes' = TakeFromHole(holes, holes[bi][1], x.nres)
             /\ resv' = resv \cup {<<holes[bi][1], x.nres>>}
             /\ th' = [th EXCEPT ![t].pc = CopyPc(x), ![t].nstart = holes[bi][1]]
             /\ UNCHANGED reg
        ELSE LET ns == CurLen IN
             /\ resv' = resv \cup {<<ns, x.nres>>}
             /\ th' = [th EXCEPT ![t].pc = IF fileLen >= ns + x.nres THEN CopyPc(x) ELSE "w_gf2", ![t].nstart = ns, ![t].target = ns + x.nres]
             /\ UNCHANGED <<reg, holes>>
  /\ UNCHANGED <<pend, fileLen, disk, readers, ref, rdr, dev>>
  /\ Log(t, "layout:W", FALSE, NoObs)

\* values written into offsets the thread's live reader covers become values "the region held"
SeenAfter(t, off, k, v) ==
  IF IsRdr(rdr[t])
  THEN [rdr EXCEPT ![t].seen = [i \in 1..Len(rdr[t].seen) |-> IF i - 1 >= off /\ i - 1 < off + k THEN rdr[t].seen[i] \cup {v} ELSE rdr[t].seen[i]]]
  ELSE rdr

WriteData(t) ==
  /\ th[t].pc = "w_data"
  /\ disk' = Put(disk, th[t].sstart + th[t].slen, Amount(t), th[t].tok)
  /\ rdr' = SeenAfter(t, th[t].slen, Amount(t), th[t].tok)
  /\ th' = [th EXCEPT ![t].pc = "w_len"]
  /\ UNCHANGED <<reg, holes, pend, resv, fileLen, readers, ref, dev>>
  /\ Log(t, "mmap:R", FALSE, NoObs)

WriteLen(t) ==
  /\ th[t].pc = "w_len"
  /\ reg' = [reg EXCEPT ![t].len = th[t].nlen]
  /\ ref' = [ref EXCEPT ![t] = ref[t] \o [i \in 1..Amount(t) |-> th[t].tok]]
  /\ th' = [th EXCEPT ![t] = EndOp(t)]
  /\ UNCHANGED <<holes, pend, resv, fileLen, disk, readers, rdr, dev>>
  /\ Log(t, "regions:R", TRUE, RegObs(t))

WriteCopy(t) ==
  /\ th[t].pc = "w_copy"
  /\ disk' = CopyCells(disk, th[t].sstart, th[t].nstart, th[t].slen)
  /\ th' = [th EXCEPT ![t].pc = "w_rdata"]
  /\ UNCHANGED <<reg, holes, pend, resv, fileLen, readers, ref, rdr, dev>>
  /\ Log(t, "mmap:R", FALSE, NoObs)

WriteRData(t) ==
  /\ th[t].pc = "w_rdata"
  /\ disk' = Put(disk, th[t].nstart + th[t].slen, Amount(t), th[t].tok)
  /\ rdr' = SeenAfter(t, th[t].slen, Amount(t), th[t].tok)
  /\ th' = [th EXCEPT ![t].pc = "w_move"]
  /\ UNCHANGED <<reg, holes, pend, resv, fileLen, readers, ref, dev>>
  /\ Log(t, "mmap:R", FALSE, NoObs)

WriteMove(t) ==
  /\ th[t].pc = "w_move"
  /\ pend' = pend \cup {<<th[t].sstart, th[t].sres>>}
  /\ resv' = resv \ {<<th[t].nstart, th[t].nres>>}
  /\ reg' = [reg EXCEPT ![t] = [ex |-> TRUE, start |-> th[t].nstart, len |-> th[t].nlen, res |-> th[t].nres]]
  /\ ref' = [ref EXCEPT ![t] = ref[t] \o [i \in 1..Amount(t) |-> th[t].tok]]
  /\ th' = [th EXCEPT ![t] = EndOp(t)]
  /\ UNCHANGED <<holes, fileLen, disk, readers, rdr, dev>>
  /\ Log(t, "layout:W", TRUE, RegObs(t))

(***************************************************************************)
(* Region::truncate                                                        *)
(***************************************************************************)
StartTruncate(t) ==
  /\ "truncate" \in Ops /\ th[t].pc = "idle" /\ reg[t].ex /\ reg[t].len > 0 /\ th[t].k < MaxOps
  /\ \E to \in {0, reg[t].len - 1} :
       th' = [th EXCEPT ![t] = [Idle EXCEPT !.op = "truncate", !.k = th[t].k, !.nlen = to, !.arg = to, !.pc = "t_set"]]
  /\ UNCHANGED <<reg, holes, pend, resv, fileLen, disk, readers, ref, rdr, dev>>
  /\ Log(t, "op", FALSE, NoObs)

TruncSet(t) ==
  /\ th[t].pc = "t_set"
  /\ reg' = [reg EXCEPT ![t].len = th[t].nlen]
  /\ ref' = [ref EXCEPT ![t] = SubSeq(ref[t], 1, th[t].nlen)]
  /\ th' = [th EXCEPT ![t] = EndOp(t)]
  /\ UNCHANGED <<holes, pend, resv, fileLen, disk, readers, rdr, dev>>
  /\ Log(t, "regions:R", TRUE, RegObs(t))

(***************************************************************************)
(* Reader: snapshot of (start, len), then the mmap read guard              *)
(***************************************************************************)
StartReader(t) ==
  /\ "reader" \in Ops /\ th[t].pc = "idle" /\ reg[t].ex /\ reg[t].len > 0 /\ ~IsRdr(rdr[t]) /\ th[t].k < MaxOps
  /\ fileLen >= Floor                     \* a reader blocks file growth: the driver takes one only once the file has its size
  /\ th' = [th EXCEPT ![t] = [Idle EXCEPT !.op = "reader_new", !.k = th[t].k, !.sstart = reg[t].start, !.slen = reg[t].len, !.pc = "r_acq"]]
  /\ UNCHANGED <<reg, holes, pend, resv, fileLen, disk, readers, ref, rdr, dev>>
  /\ Log(t, "op", FALSE, NoObs)

ReaderAcq(t) ==
  /\ th[t].pc = "r_acq"
  /\ readers' = readers + 1
  /\ rdr' = [rdr EXCEPT ![t] = [start |-> th[t].sstart, len |-> th[t].slen,
                                seen |-> [i \in 1..th[t].slen |-> {Cell(disk, th[t].sstart + i - 1)}]]]
  /\ th' = [th EXCEPT ![t] = EndOp(t)]
  /\ UNCHANGED <<reg, holes, pend, resv, fileLen, disk, ref, dev>>
  /\ Log(t, "mmap:R", TRUE, NoObs)

ReaderRead(t) ==
  /\ "reader" \in Ops /\ th[t].pc = "idle" /\ IsRdr(rdr[t]) /\ th[t].k < MaxOps + 2
  /\ th' = [th EXCEPT ![t] = [Idle EXCEPT !.k = th[t].k + 1]]
  /\ UNCHANGED <<reg, holes, pend, resv, fileLen, disk, readers, ref, rdr, dev>>
  /\ n' = n + 1 /\ last' = LastK(<<t, "rread">>)
  /\ hist' = Append(hist, Rec(t, "op", "op", "reader_read", th[t].k, 0, TRUE,
                               <<"reader", [i \in 1..rdr[t].len |-> Cell(disk, rdr[t].start + i - 1)], rdr[t].seen>>,
                               th', Alloc(reg, holes, pend, resv, fileLen), dev))

ReaderDrop(t) ==
  /\ "reader" \in Ops /\ th[t].pc = "idle" /\ IsRdr(rdr[t])
  /\ readers' = readers - 1
  /\ rdr' = [rdr EXCEPT ![t] = None]
  /\ th' = [th EXCEPT ![t] = [Idle EXCEPT !.k = th[t].k + 1]]
  /\ UNCHANGED <<reg, holes, pend, resv, fileLen, disk, ref, dev>>
  /\ n' = n + 1 /\ last' = LastK(<<t, "rdrop">>)
  /\ hist' = Append(hist, Rec(t, "op", "op", "reader_drop", th[t].k, 0, TRUE, NoObs, th', Alloc(reg, holes, pend, resv, fileLen), dev))

(***************************************************************************)
(* Database::flush and compact (maintenance thread)                        *)
(***************************************************************************)
StartMaint(op) ==
  /\ op \in Ops /\ th[Maint].pc = "idle" /\ th[Maint].k < MaxMaint
  /\ th' = [th EXCEPT ![Maint] = [Idle EXCEPT !.op = op, !.k = th[Maint].k, !.pc = "f_prom"]]
  /\ UNCHANGED <<reg, holes, pend, resv, fileLen, disk, readers, ref, rdr, dev>>
  /\ Log(Maint, "op", FALSE, NoObs)

FlushPromote ==
  /\ th[Maint].pc = "f_prom"
  /\ LET keep == PromoteKeep(Dev)
         want == PromoteKeep(Dev \ {"D8"})
     IN /\ holes' = Promote(holes, pend \ keep)
        /\ pend' = keep
        /\ dev' = IF keep # want THEN dev \cup {"D8"} ELSE dev
  /\ th' = [th EXCEPT ![Maint] = IF th[Maint].op = "compact" THEN [th[Maint] EXCEPT !.pc = "p_punch"] ELSE EndOp(Maint)]
  /\ UNCHANGED <<reg, resv, fileLen, disk, readers, ref, rdr>>
  /\ Log(Maint, "layout:W", th[Maint].op # "compact", NoObs)

\* approx_has_punchable_data looks at the first and the last page of the range only
Punchable(d, at, k) == k > 0 /\ (Cell(d, at) # 0 \/ Cell(d, at + k - 1) # 0)
RECURSIVE ZeroAll(_, _)
ZeroAll(d, rs) == IF rs = {} THEN d ELSE LET r == CHOOSE x \in rs : TRUE IN ZeroAll(Zero(d, r[1], r[2]), rs \ {r})

\* the owner has copied its data into the reserve and not yet published the new length
InFlight(t) == th[t].pc = "w_len"
PunchRanges(D) ==
  LET all == {<<reg[t].start + reg[t].len, reg[t].res - reg[t].len>> :
                t \in {x \in Workers : reg[x].ex /\ reg[x].len < reg[x].res /\ ("D35" \in D \/ ~InFlight(x))}}
             \cup HoleSet(holes)
  IN IF "D36" \in D THEN all ELSE {q \in all : ~Pinned(q)}     \* intended: what a live reader maps is not punched

Punch ==
  /\ th[Maint].pc = "p_punch"
  /\ LET rs == {r \in PunchRanges(Dev) : Punchable(disk, r[1], r[2])}
     IN /\ disk' = ZeroAll(disk, rs)
        /\ dev' = dev \cup {e \in Dev \cap {"D35", "D36"} : {r \in PunchRanges(Dev \ {e}) : Punchable(disk, r[1], r[2])} # rs}
  /\ th' = [th EXCEPT ![Maint] = EndOp(Maint)]
  /\ UNCHANGED <<reg, holes, pend, resv, fileLen, readers, ref, rdr>>
  /\ Log(Maint, "layout:R", TRUE, NoObs)

(***************************************************************************)
Init ==
  /\ th = [t \in Threads |-> Idle]
  /\ readers = 0 /\ rdr = [t \in Workers |-> None] /\ dev = {} /\ n = 0 /\ hist = <<>> /\ last = <<>>
  /\ pend = {} /\ resv = {}
  /\ IF Setup = "empty"
     THEN /\ reg = [t \in Workers |-> NoReg] /\ holes = <<>> /\ fileLen = InitLen /\ disk = <<>>
          /\ ref = [t \in Workers |-> <<>>]
     ELSE LET off == IF Setup = "hole" THEN 1 ELSE 0
              ord == [t \in Workers |-> Cardinality({x \in Workers : x < t})]
          IN /\ reg = [t \in Workers |-> [ex |-> TRUE, start |-> off + ord[t], len |-> PreLen, res |-> 1]]
             /\ holes = IF Setup = "hole" THEN << <<0, 1>> >> ELSE <<>>
             /\ fileLen = Floor
             /\ disk = [c \in {off + ord[t] : t \in {x \in Workers : PreLen > 0}} |-> 10 * (CHOOSE t \in Workers : off + ord[t] = c)]
             /\ ref = [t \in Workers |-> [i \in 1..PreLen |-> 10 * t]]

WorkerNext(t) ==
  \/ StartCreate(t) \/ (th[t].pc = "c_grow" /\ GrowFile(t, "c_alloc")) \/ CreateAlloc(t) \/ CreateGrow2(t)
  \/ StartAppend(t) \/ WriteGrow(t) \/ (th[t].pc = "w_gf" /\ GrowFile(t, "w_data")) \/ (th[t].pc = "w_gf2" /\ GrowFile(t, CopyPc(th[t])))
  \/ WriteData(t) \/ WriteLen(t) \/ WriteCopy(t) \/ WriteRData(t) \/ WriteMove(t)
  \/ StartTruncate(t) \/ TruncSet(t)
  \/ StartReader(t) \/ ReaderAcq(t) \/ ReaderRead(t) \/ ReaderDrop(t)

Next == (\E t \in Workers : WorkerNext(t)) \/ StartMaint("flush") \/ StartMaint("compact") \/ FlushPromote \/ Punch
Spec == Init /\ [][Next]_vars

(***************************************************************************)
(* Properties (C10)                                                        *)
(***************************************************************************)
\* a region whose owner is between operations holds exactly what the owner's operations produce in isolation
Isolated == \A t \in Workers : (th[t].pc = "idle" /\ reg[t].ex) => Content(disk, reg[t]) = ref[t]
\* bytes behind a live reader are bytes its region held since the reader was created
ReaderOwn == \A t \in Workers : IsRdr(rdr[t]) => \A i \in 1..rdr[t].len : Cell(disk, rdr[t].start + i - 1) \in rdr[t].seen[i]
\* C02 at quiescence
Extents == {<<reg[t].start, reg[t].res>> : t \in {x \in Workers : reg[x].ex}} \cup HoleSet(holes) \cup pend \cup resv
Partition == Quiet(th) =>
  /\ resv = {}
  /\ \A t \in Workers : reg[t].ex => reg[t].len <= reg[t].res /\ reg[t].start + reg[t].res <= fileLen
  /\ \A e1, e2 \in Extents : e1 # e2 => (e1[1] + e1[2] <= e2[1] \/ e2[1] + e2[2] <= e1[1])
  /\ \A c \in 0..(CurLen - 1) : \E e \in Extents : e[1] <= c /\ c < e[1] + e[2]
  /\ \A h1, h2 \in HoleSet(holes) : h1[1] + h1[2] # h2[1]
\* extents never overlap, also while operations are in flight (reservations cover relocation targets)
NoOverlap == \A e1, e2 \in Extents : e1 # e2 => (e1[1] + e1[2] <= e2[1] \/ e2[1] + e2[2] <= e1[1])

DepthOK == n <= Depth
HView == <<reg, holes, pend, resv, fileLen, disk, readers, th, ref, rdr, dev, last>>
Emit == n > 0 => PrintT(<<"REPLAY", ToJson(hist)>>)
=============================================================================
