------------------------------- MODULE Eager ------------------------------
(***************************************************************************)
(* C06 / C19: incrementally maintained computed columns (EagerVec).        *)
(*                                                                         *)
(* The protocol of every compute_* method (variants/eager/mod.rs):         *)
(*   compute_init: validate_computed_version_or_reset(dep version)         *)
(*                 truncate_if_needed(max_from)                            *)
(*                 repeat_until_complete: batches of at most Cap elements, *)
(*                 write between batches                                   *)
(* with the four resume schemes the code uses to continue a computation:   *)
(*   "id"   stateless            out[i] = src[i]                           *)
(*   "cum"  previous output      out[i] = out[i-1] + src[i]                *)
(*   "max"  window rebuild       out[i] = max(src[i-W+1..i]) re-reads src  *)
(*   "rsum" running state        out[i] = out[i-1] + src[i] - src[i-W]     *)
(* The environment keeps the contract of C06: max_from <= first changed    *)
(* source index.  Histories are emitted for replay on all real methods.    *)
(***************************************************************************)
EXTENDS Integers, Sequences, FiniteSets, TLC, SequencesExt, FiniteSetsExt

CONSTANTS Vals, MaxLen, W, Caps, Depth, Scheme, HistK

VARIABLES src, out, rec, sver, fc, dirty, n, hist, last
vars == <<src, out, rec, sver, fc, dirty, n, hist, last>>

Min2(a, b) == IF a < b THEN a ELSE b
Max2(a, b) == IF a > b THEN a ELSE b

\* from-scratch definition
RECURSIVE Sum(_, _, _)
Sum(s, lo, hi) == IF lo > hi THEN 0 ELSE s[hi] + Sum(s, lo, hi - 1)
Scratch(s) ==
  [i \in 1..Len(s) |->
     CASE Scheme = "id" -> s[i]
       [] Scheme = "cum" -> Sum(s, 1, i)
       [] Scheme = "max" -> Max({s[j] : j \in Max2(1, i - W + 1)..i})
       [] Scheme = "rsum" -> Sum(s, Max2(1, i - W + 1), i)]

\* one element computed the way the scheme resumes: from the stored output and the current source
Elem(o, s, i) ==
  CASE Scheme = "id" -> s[i]
    [] Scheme = "cum" -> (IF i = 1 THEN 0 ELSE o[i - 1]) + s[i]
    [] Scheme = "max" -> Max({s[j] : j \in Max2(1, i - W + 1)..i})
    [] Scheme = "rsum" -> (IF i = 1 THEN 0 ELSE o[i - 1]) + s[i] - (IF i - W >= 1 THEN s[i - W] ELSE 0)

RECURSIVE Extend(_, _, _)
Extend(o, s, upto) == IF Len(o) >= upto THEN o ELSE Extend(Append(o, Elem(o, s, Len(o) + 1)), s, upto)

\* batches: the number of write-backs the loop performs with capacity cap (0 = unbounded)
Batches(from, to, cap) == IF cap = 0 \/ to <= from THEN 1 ELSE ((to - from) + cap - 1) \div cap

Init == src = <<>> /\ out = <<>> /\ rec = 0 /\ sver = 1 /\ fc = 0 /\ dirty = FALSE /\ n = 0 /\ hist = <<>> /\ last = <<>>

LastK(e) == LET l == Append(last, e) IN IF Len(l) > HistK THEN SubSeq(l, Len(l) - HistK + 1, Len(l)) ELSE l
Key(e) == IF "vals" \in DOMAIN e THEN e.vals ELSE IF "to" \in DOMAIN e THEN <<e.to>>
          ELSE IF "cap" \in DOMAIN e THEN <<e.max_from, e.cap>> ELSE <<>>
Log(e) == /\ hist' = Append(hist, e) /\ n' = n + 1 /\ last' = LastK(<<e.op, Key(e)>>)

Append1 ==
  /\ n < Depth /\ Len(src) < MaxLen
  /\ \E v \in Vals :
       /\ src' = Append(src, v)
       /\ Log([op |-> "append", vals |-> <<v>>])
  /\ UNCHANGED <<out, rec, sver, fc, dirty>>

Truncate ==
  /\ n < Depth /\ Len(src) > 0
  /\ \E t \in 0..(Len(src) - 1) :
       /\ src' = SubSeq(src, 1, t)
       /\ fc' = Min2(fc, t)
       /\ Log([op |-> "truncate", to |-> t])
  /\ UNCHANGED <<out, rec, sver, dirty>>

\* the sources' version changes and so do their contents (same length)
Bump ==
  /\ n < Depth /\ Len(src) > 0 /\ sver < 3
  /\ sver' = sver + 1
  /\ src' = [i \in 1..Len(src) |-> src[i] + 100]
  /\ Log([op |-> "bump"])
  /\ UNCHANGED <<out, rec, fc, dirty>>

Compute ==
  /\ n < Depth
  /\ \E mf \in {0, fc, Len(out)} \cup (IF fc > 0 THEN {fc - 1} ELSE {}), cap \in Caps :
       /\ mf <= fc                                   \* the caller's contract
       /\ LET reset == rec # sver
              o0 == IF reset THEN <<>> ELSE out
              o1 == IF mf < Len(o0) THEN SubSeq(o0, 1, mf) ELSE o0
              o2 == Extend(o1, src, Len(src))
              evalFrom == Len(o1)
          IN /\ out' = o2
             /\ rec' = sver
             /\ fc' = Len(src)
             /\ Log([op |-> "compute", max_from |-> mf, cap |-> cap, exp |-> o2, reset |-> reset,
                     eval_from |-> evalFrom, batches |-> Batches(Len(o1), Len(src), cap)])
  /\ UNCHANGED <<src, sver, dirty>>

Write == /\ n < Depth /\ Log([op |-> "write"]) /\ UNCHANGED <<src, out, rec, sver, fc, dirty>>
Reimport == /\ n < Depth /\ Log([op |-> "reimport"]) /\ UNCHANGED <<src, out, rec, sver, fc, dirty>>

Next == Append1 \/ Truncate \/ Bump \/ Compute \/ Write \/ Reimport
Spec == Init /\ [][Next]_vars

(***************************************************************************)
(* Properties of the protocol                                              *)
(***************************************************************************)
LastIsCompute == n > 0 /\ hist[Len(hist)].op = "compute"
\* C06: after every compute the stored result equals the from-scratch run and is as long as the source
Correct == LastIsCompute => out = Scratch(src)
\* C19: a version change recomputes everything; otherwise nothing below min(max_from, stored length) is re-evaluated
VersionRule == LastIsCompute =>
                 LET e == hist[Len(hist)] IN
                 /\ (e.reset => e.eval_from = 0)
                 /\ rec = sver
DepthOK == n <= Depth
HView == <<src, out, rec, sver, fc, dirty, last>>
==========================================================================
