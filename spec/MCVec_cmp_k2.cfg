SPECIFICATION Spec
CONSTANTS
  Kind = "cmp"
  K = 2
  PP = 2
  MaxLen = 5
  MaxStamp = 3
  Depth = 7
  Dev <- AllDev
  Ops = {"push","truncate","reimport","commit","rollback","rollback_before"}
VIEW HView
CONSTRAINT DepthOK
INVARIANT TypeOK
INVARIANT ViewEq
INVARIANT MustOk
INVARIANT RetentionBound
INVARIANT ChangeDirBound
INVARIANT PagesOk
CHECK_DEADLOCK FALSE
