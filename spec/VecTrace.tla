----------------------------- MODULE VecTrace -----------------------------
(***************************************************************************)
(* Code -> spec for the stored vectors (C03, C04): executions RECORDED     *)
(* from the real vectors (vh vecrecord: a seeded random driver, hundreds   *)
(* of calls per recording, any format, retention K) are validated against  *)
(* Vec.tla.                                                                *)
(*                                                                         *)
(* One line = one public call: operation, arguments, result class, and the *)
(* observable state after it (length, every element, deleted slots,        *)
(* stamp).  A trace step is the model's OWN action for that operation      *)
(* (APush, ATruncate, AUpdate, ..., ACommit, ARollback, ARollbackBefore)   *)
(* restricted to the logged arguments, and must end in a state whose       *)
(* observable projection equals the logged one; TLC evaluates ViewEq /     *)
(* MustOk on every state.  A line no action explains is reported           *)
(* (MISMATCH) and validation goes on with the next recording.              *)
(***************************************************************************)
EXTENDS Vec, Json, IOUtils

Rec == TLCGet(42)
VARIABLES l, bad
tvars == <<vars, l, bad>>

SeqSet(x) == {x[i] : i \in 1..Len(x)}
LoggedObs(e) == [len |-> e.obs.len, view |-> e.obs.view, holes |-> SeqSet(e.obs.holes), stamp |-> e.obs.stamp]
LastRec == hist'[Len(hist')]

OpAction(op) ==
  CASE op = "push" -> APush
    [] op = "truncate" -> ATruncate
    [] op = "update" -> AUpdate
    [] op = "delete" -> ADelete
    [] op = "fill" -> AFill
    [] op = "write" -> AWrite
    [] op = "reimport" -> AFlushReimport
    [] op = "reset" -> AReset
    [] op = "commit" -> ACommit
    [] op = "rollback" -> ARollback
    [] op = "rollback_before" -> ARollbackBefore
    [] OTHER -> FALSE

\* the model's action for the logged call, with the logged arguments, ending in the logged observable state
Match ==
  LET e == Rec[l] IN
  /\ OpAction(e.op)
  /\ LastRec.op = e.op /\ LastRec.args = e.args
  /\ Obs(v') = LoggedObs(e)
  /\ (e.res = "ok") <=> (LastRec.res \in {"ok", "false"})

NextRun(i) == LET js == {j \in (i + 1)..Len(Rec) : Rec[j].op = "begin"} IN IF js = {} THEN Len(Rec) + 1 ELSE Min(js)

TraceInit == TLCSet(42, ndJsonDeserialize(IOEnv.TRACE)) /\ Init /\ l = 1 /\ bad = 0

TraceStep ==
  /\ l <= Len(Rec)
  /\ IF Rec[l].op = "begin"
     THEN /\ v' = V0 /\ g' = G0 /\ n' = 0 /\ hist' = <<>> /\ l' = l + 1 /\ bad' = bad
     ELSE \/ Match /\ l' = l + 1 /\ bad' = bad
          \/ /\ ~ENABLED Match
             /\ PrintT(<<"MISMATCH", ToJson(<<l, Rec[l].op, Obs(v), g.dev>>)>>)
             /\ v' = V0 /\ g' = G0 /\ n' = 0 /\ hist' = <<>> /\ l' = NextRun(l) /\ bad' = bad + 1

TraceSpec == TraceInit /\ [][TraceStep]_tvars
Done == l = Len(Rec) + 1 => PrintT(<<"FINISHED", ToJson(<<Len(Rec), bad>>)>>)
TView == <<v, g, l, bad>>
===========================================================================
