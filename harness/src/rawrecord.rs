//! Code -> spec for rawdb: a seeded random driver runs long histories on a real Database and RECORDS, per public
//! call, the operation with its arguments, the outcome class and the abstract state after it (placement of every
//! region, holes, pending holes, file length, region contents as cell values). The recording is validated by TLC
//! against spec/RawDbTrace.tla (the same operators as the model-checked spec); nothing here judges the run, except
//! that the recorder also notes whether the real layout satisfies the extent invariants (so that a rejected trace
//! can be attributed to C02) and whether each region reads back what the driver wrote into it (C01).
use std::collections::BTreeMap;
use std::io::Write;

use rand::rngs::StdRng;
use rand::{Rng, SeedableRng};
use rawdb::{Database, PAGE_SIZE};
use serde_json::{Value, json};

use crate::util::{Scratch, parse_flags};

/// cell holding value v (1..65535): every 4 bytes = [v lo, v hi, 0xA5, mix]; 0 = all zero
fn cell(v: u64, scale: usize) -> Vec<u8> {
    (0..scale).map(|j| match j % 4 { 0 => (v & 0xff) as u8, 1 => ((v >> 8) & 0xff) as u8, 2 => 0xA5, _ => ((v * 31 + j as u64) % 251 + 1) as u8 }).collect()
}
fn decode(b: &[u8]) -> i64 {
    if b.iter().all(|x| *x == 0) { return 0; }
    if b.len() < 4 { return -1; }
    let v = b[0] as u64 | ((b[1] as u64) << 8);
    if b == cell(v, b.len()).as_slice() { v as i64 } else { -1 }
}

fn state(db: &Database, scale: usize) -> (Value, Value, Option<String>) {
    let c = |x: usize| (x / scale) as i64;
    let mut regs = vec![];
    let mut contents = serde_json::Map::new();
    let mut problem = None;
    let names: Vec<String> = db.regions().id_to_index().keys().cloned().collect();
    for nm in &names {
        let Some(reg) = db.get_region(nm) else { continue };
        {
            let m = reg.meta();
            if m.start() % scale != 0 || m.len() % scale != 0 || m.reserved() % scale != 0 { problem = Some(format!("region {nm} not on the cell grid")); }
            regs.push(json!([nm, c(m.start()), c(m.len()), c(m.reserved())]));
        }
        let rd = reg.create_reader();
        contents.insert(nm.clone(), json!(rd.read_all().chunks(scale).map(decode).collect::<Vec<_>>()));
    }
    let l = db.layout();
    let pairs = |it: Vec<(usize, usize)>| -> Vec<Value> { it.into_iter().map(|(a, b)| json!([c(a), c(b)])).collect() };
    let alloc = json!({"regs": regs, "holes": pairs(l.start_to_hole().iter().map(|(a, b)| (*a, *b)).collect()),
        "pend": pairs(l.pending_holes().iter().map(|(a, b)| (*a, *b)).collect()), "fileLen": c(db.file_len())});
    if !l.start_to_reserved().is_empty() { problem = Some("a reservation is left behind".into()); }
    (alloc, Value::Object(contents), problem)
}

fn extent_ok(db: &Database) -> Result<(), String> {
    let layout = db.layout();
    let mut ext: Vec<(usize, usize, String)> = vec![];
    for r in db.regions().index_to_region().iter().flatten() {
        let m = r.meta();
        if m.start() % PAGE_SIZE != 0 || m.reserved() % PAGE_SIZE != 0 || m.len() > m.reserved() { return Err(format!("region {} malformed", m.id())); }
        if m.start() + m.reserved() > db.file_len() { return Err(format!("region {} beyond the file length", m.id())); }
        ext.push((m.start(), m.reserved(), format!("region {}", m.id())));
    }
    for (s, z) in layout.start_to_hole() { ext.push((*s, *z, "hole".into())); }
    for (s, z) in layout.pending_holes() { ext.push((*s, *z, "pending".into())); }
    for (s, z) in layout.start_to_reserved() { ext.push((*s, *z, "reserved".into())); }
    ext.sort();
    let (mut pe, mut pk) = (0, String::new());
    for (s, z, k) in ext {
        if s < pe { return Err(format!("{k} at {s} overlaps {pk} ending at {pe}")); }
        if s > pe { return Err(format!("bytes [{pe},{s}) belong to nothing")); }
        if k == "hole" && pk == "hole" { return Err(format!("adjacent holes not merged at {s}")); }
        pe = s + z;
        pk = k;
    }
    Ok(())
}

pub fn main(args: &[String]) -> i32 {
    let f = parse_flags(args);
    let seed0: u64 = f.get("seed").map(|s| s.parse().unwrap()).unwrap_or(1);
    let runs: u64 = f.get("runs").map(|s| s.parse().unwrap()).unwrap_or(1);
    let nops: usize = f.get("ops").map(|s| s.parse().unwrap()).unwrap_or(200);
    let p: usize = f.get("p").map(|s| s.parse().unwrap()).unwrap_or(2);
    let out_path = f.get("out").expect("--out");
    let scale = PAGE_SIZE / p;
    let names = ["a", "b", "c", "d", "e", "f"];
    let mut out = std::io::BufWriter::new(std::fs::File::create(out_path).unwrap());
    let mut lines = 0usize;
    for run in 0..runs {
    let seed = seed0.wrapping_mul(1000).wrapping_add(run);
    let mut rng = StdRng::seed_from_u64(seed);
    let scratch = Scratch::new("rec");
    let mut db = Some(Database::open(scratch.path()).unwrap());
    let mut nxt: u64 = 1; // the specification's fresh-value counter
    let mut reference: BTreeMap<String, Vec<i64>> = BTreeMap::new(); // what the driver wrote (for the C01 note only)
    writeln!(out, "{}", json!({"op": "reset", "run_seed": seed})).unwrap();
    lines += 1;
    for _ in 0..nops {
        let mut partial = serde_json::Map::new(); // op and arguments, kept for the case that the call panics
        let step = std::panic::catch_unwind(std::panic::AssertUnwindSafe(|| -> Option<Value> {
        let d = db.as_ref().unwrap();
        let existing: Vec<String> = d.regions().id_to_index().keys().cloned().collect();
        let pick = |rng: &mut StdRng| existing[rng.random_range(0..existing.len())].clone();
        let choice = rng.random_range(0..100);
        let mut ev = serde_json::Map::new();
        let res: Result<(), String>;
        if existing.is_empty() || choice < 12 {
            let free: Vec<&str> = names.iter().copied().filter(|n| !existing.iter().any(|e| e == n)).collect();
            if free.is_empty() { return None; }
            let nm = free[rng.random_range(0..free.len())];
            ev.insert("op".into(), json!("create")); ev.insert("nm".into(), json!(nm));
            res = d.create_region_if_needed(nm).map(|_| ()).map_err(|e| format!("{e:?}"));
            if res.is_ok() { reference.insert(nm.into(), vec![]); }
        } else if choice < 55 {
            let nm = pick(&mut rng);
            let cur = reference.get(&nm).map(|v| v.len()).unwrap_or(0);
            let sz = [1usize, 1, 2, 3, 5, 9, 17][rng.random_range(0..7)];
            let kind = rng.random_range(0..10);
            let (at, trunc): (i64, bool) = match kind { 0..=4 => (-1, false), 5 | 6 => (rng.random_range(0..=cur) as i64, false), 7 | 8 => (rng.random_range(0..=cur) as i64, true), _ => (cur as i64 + 1, false) };
            if nxt + sz as u64 > 60000 { return None; }
            let vals: Vec<u64> = (0..sz as u64).map(|i| nxt + i).collect();
            let bytes: Vec<u8> = vals.iter().flat_map(|v| cell(*v, scale)).collect();
            ev.insert("op".into(), json!("write")); ev.insert("nm".into(), json!(nm)); ev.insert("at".into(), json!(at)); ev.insert("sz".into(), json!(sz));
            ev.insert("trunc".into(), json!(if trunc { 1 } else { 0 }));
            let reg = d.get_region(&nm).unwrap();
            res = if at < 0 { reg.write(&bytes) } else if trunc { reg.truncate_write(at as usize * scale, &bytes) } else { reg.write_at(&bytes, at as usize * scale) }.map_err(|e| format!("{e:?}"));
            nxt += sz as u64;
            if res.is_ok() {
                let r = reference.get_mut(&nm).unwrap();
                let off = if at < 0 { r.len() } else { at as usize };
                if trunc { r.truncate(off); }
                if r.len() < off + sz { r.resize(off + sz, 0); }
                for (i, v) in vals.iter().enumerate() { r[off + i] = *v as i64; }
            }
        } else if choice < 65 {
            let nm = pick(&mut rng);
            let cur = reference[&nm].len();
            let to = if rng.random_range(0..8) == 0 { cur + 1 } else { rng.random_range(0..=cur) };
            ev.insert("op".into(), json!("truncate")); ev.insert("nm".into(), json!(nm)); ev.insert("to".into(), json!(to));
            res = d.get_region(&nm).unwrap().truncate(to * scale).map_err(|e| format!("{e:?}"));
            if res.is_ok() { reference.get_mut(&nm).unwrap().truncate(to); }
        } else if choice < 70 {
            let nm = pick(&mut rng);
            let new = names[rng.random_range(0..names.len())];
            if new == nm { return None; }
            ev.insert("op".into(), json!("rename")); ev.insert("nm".into(), json!(nm)); ev.insert("new".into(), json!(new));
            res = d.get_region(&nm).unwrap().rename(new).map_err(|e| format!("{e:?}"));
            if res.is_ok() { let v = reference.remove(&nm).unwrap(); reference.insert(new.into(), v); }
        } else if choice < 80 {
            let nm = pick(&mut rng);
            ev.insert("op".into(), json!("remove")); ev.insert("nm".into(), json!(nm));
            res = d.remove_region(&nm).map_err(|e| format!("{e:?}"));
            if res.is_ok() { reference.remove(&nm); }
        } else if choice < 88 {
            ev.insert("op".into(), json!("flush"));
            res = d.flush().map(|_| ()).map_err(|e| format!("{e:?}"));
        } else if choice < 92 {
            let nm = pick(&mut rng);
            ev.insert("op".into(), json!("rflush")); ev.insert("nm".into(), json!(nm));
            res = d.get_region(&nm).unwrap().flush().map(|_| ()).map_err(|e| format!("{e:?}"));
        } else if choice < 97 {
            ev.insert("op".into(), json!("compact"));
            res = d.compact().map_err(|e| format!("{e:?}"));
        } else {
            ev.insert("op".into(), json!("reopen"));
            res = d.flush().map(|_| ()).map_err(|e| format!("{e:?}"));
            drop(db.take());
            db = Some(Database::open(scratch.path()).unwrap());
            // regions whose slot was never written do not survive (the specification knows: `persist`)
            let alive: Vec<String> = db.as_ref().unwrap().regions().id_to_index().keys().cloned().collect();
            reference.retain(|k, _| alive.contains(k));
        }
        let d = db.as_ref().unwrap();
        let (alloc, contents, problem) = state(d, scale);
        ev.insert("res".into(), json!(if res.is_ok() { "ok" } else { "err" }));
        if let Err(e) = &res { ev.insert("error".into(), json!(e)); }
        ev.insert("alloc".into(), alloc);
        // C01 / C02 evaluated by the recorder on the real state (used only to attribute a rejected trace)
        let own_ok = contents.as_object().unwrap().iter().all(|(k, v)| reference.get(k).map(|r| json!(r) == *v).unwrap_or(false)) && contents.as_object().unwrap().len() == reference.len();
        ev.insert("contents".into(), contents);
        ev.insert("c01".into(), json!(own_ok));
        ev.insert("c02".into(), json!(extent_ok(d).map(|_| "ok".to_string()).unwrap_or_else(|e| e)));
        if let Some(p) = problem { ev.insert("problem".into(), json!(p)); }
        Some(Value::Object(ev))
        }));
        let _ = &mut partial;
        match step {
            Ok(Some(ev)) => { writeln!(out, "{}", ev).unwrap(); lines += 1; }
            Ok(None) => {}
            Err(p) => {
                // a panic of the code under test is data: it is recorded (no state can be read back) and ends this recording
                let msg = p.downcast_ref::<String>().cloned().or_else(|| p.downcast_ref::<&str>().map(|s| s.to_string())).unwrap_or_default();
                writeln!(out, "{}", json!({"op": "panic", "res": "panic", "error": msg, "alloc": {"regs": [], "holes": [], "pend": [], "fileLen": 0}, "contents": {}, "c01": false, "c02": format!("panic: {msg}")})).unwrap();
                lines += 1;
                break;
            }
        }
    }
    }
    out.flush().unwrap();
    println!("{}", json!({"lines": lines, "seed": seed0, "runs": runs}));
    0
}
