//! Code -> spec for the stored vectors: a seeded random driver runs long histories on a real vector (any format,
//! retention K) within the premises of C03 / C04 (rollbacks only from committed states, no plain write between
//! commits when K > 0) and RECORDS every call with its arguments, result class and the observable state after it.
//! The recording is validated by TLC against spec/VecTrace.tla (the actions of Vec.tla restricted to the logged
//! arguments). The recorder keeps its own reference only to note, per line, whether the real state equals what the
//! calls should have produced (used to attribute a rejected line to the property).
use std::io::Write;

use rand::rngs::StdRng;
use rand::{Rng, SeedableRng};
use rawdb::Database;
use serde_json::json;
use vecdb::{BytesVec, LZ4Vec, PcoVec, ZeroCopyVec, ZstdVec};

use crate::util::{Scratch, parse_flags};
use crate::vecreplay::{Be32, Elem, VK, obs_to_json, observe};

fn run<V: VK>(f: &std::collections::HashMap<String, String>, raw: bool) -> (usize, u64) {
    let seed0: u64 = f.get("seed").map(|s| s.parse().unwrap()).unwrap_or(1);
    let runs: u64 = f.get("runs").map(|s| s.parse().unwrap()).unwrap_or(1);
    let nops: usize = f.get("ops").map(|s| s.parse().unwrap()).unwrap_or(200);
    let k: u16 = f.get("k").map(|s| s.parse().unwrap()).unwrap_or(0);
    let max_len: usize = f.get("max-len").map(|s| s.parse().unwrap()).unwrap_or(24);
    let max_stamp: u64 = f.get("max-stamp").map(|s| s.parse().unwrap()).unwrap_or(60);
    let mut out = std::io::BufWriter::new(std::fs::File::create(f.get("out").expect("--out")).unwrap());
    let mut lines = 0usize;
    for run in 0..runs {
        let seed = seed0.wrapping_mul(1000).wrapping_add(run);
        let mut rng = StdRng::seed_from_u64(seed);
        let scratch = Scratch::new("vrec");
        let mut db = Some(Database::open(scratch.path()).unwrap());
        let mut vec: Option<V> = Some(V::open(db.as_ref().unwrap(), "v", k, 1).unwrap());
        writeln!(out, "{}", json!({"op": "begin", "run_seed": seed})).unwrap();
        lines += 1;
        let mut nxt: u64 = 1; // the specification's fresh-value counter
        let mut clean = true; // contents equal the last committed state (C04's premise for rollbacks)
        let mut reference: Vec<u64> = vec![]; // 0 = deleted
        for _ in 0..nops {
            let step = std::panic::catch_unwind(std::panic::AssertUnwindSafe(|| -> Option<serde_json::Value> {
            let v = vec.as_mut().unwrap();
            let len = reference.len();
            let stamp = v.stamp();
            let c = rng.random_range(0..100);
            let (op, args, res): (&str, Vec<u64>, Result<(), String>);
            let e = |r: vecdb::Result<()>| r.map_err(|e| format!("{e:?}"));
            if c < 30 && len < max_len {
                let x = nxt; nxt += 1;
                v.push(<V::T as Elem>::enc(x, 0));
                reference.push(x); clean = false;
                (op, args, res) = ("push", vec![x], Ok(()));
            } else if c < 38 {
                let idx = rng.random_range(0..=len);
                res = e(v.truncate(idx));
                if idx < len { reference.truncate(idx); clean = false; }
                (op, args) = ("truncate", vec![idx as u64]);
            } else if c < 50 && raw {
                let idx = rng.random_range(0..=len);
                let x = nxt; nxt += 1;
                res = e(v.update(idx, <V::T as Elem>::enc(x, 0)));
                if idx < len { reference[idx] = x; clean = false; }
                (op, args) = ("update", vec![idx as u64, x]);
            } else if c < 57 && raw {
                let idx = rng.random_range(0..=len);
                v.delete(idx);
                if idx < len { reference[idx] = 0; clean = false; }
                (op, args, res) = ("delete", vec![idx as u64], Ok(()));
            } else if c < 62 && raw && (reference.contains(&0) || len < max_len) {
                let x = nxt; nxt += 1;
                res = v.fill(<V::T as Elem>::enc(x, 0)).map(|_| ()).map_err(|e| format!("{e:?}"));
                if let Some(h) = reference.iter().position(|y| *y == 0) { reference[h] = x; } else { reference.push(x); }
                clean = false;
                (op, args) = ("fill", vec![x]);
            } else if c < 68 && (k == 0 || clean) {
                res = v.write().map(|_| ()).map_err(|e| format!("{e:?}"));
                (op, args) = ("write", vec![]);
            } else if c < 72 && (k == 0 || clean) {
                res = e(v.flush());
                if res.is_ok() {
                    drop(vec.take());
                    drop(db.take());
                    db = Some(Database::open(scratch.path()).unwrap());
                    vec = Some(V::open(db.as_ref().unwrap(), "v", k, 1).unwrap());
                }
                (op, args) = ("reimport", vec![]);
            } else if c < 74 {
                res = e(v.reset());
                reference.clear(); clean = true;
                (op, args) = ("reset", vec![]);
            } else if c < 88 && stamp + 1 < max_stamp {
                let st = stamp + 1 + rng.random_range(0..2);
                res = e(v.commit(st));
                clean = true;
                (op, args) = ("commit", vec![st]);
            } else if c < 95 && clean && k > 0 {
                res = e(v.rollback());
                (op, args) = ("rollback", vec![]);
            } else if clean && k > 0 && stamp > 0 {
                let target = rng.random_range(1..=stamp);
                res = v.rollback_before(target).map(|_| ()).map_err(|e| format!("{e:?}"));
                (op, args) = ("rollback_before", vec![target]);
            } else {
                return None;
            }
            let o = observe(vec.as_ref().unwrap(), 1);
            // after a rollback the reference is whatever the vector now holds (the specification knows the committed stack)
            if op == "rollback" || op == "rollback_before" { reference = o.view.clone(); }
            let own_ok = o.view == reference && o.bad_block.is_none();
            // (no JSON nulls: the TLA+ Json module does not read them)
            let mut ob = obs_to_json(&o);
            ob.as_object_mut().unwrap().remove("bad_block");
            let mut ev = json!({"op": op, "args": args, "res": if res.is_ok() { "ok" } else { "err" }, "obs": ob, "ref_ok": own_ok});
            if let Err(e) = &res { ev["error"] = json!(e); }
            if let Some(b) = &o.bad_block { ev["bad_block"] = json!(b); }
            Some(ev)
            }));
            match step {
                Ok(Some(ev)) => { writeln!(out, "{}", ev).unwrap(); lines += 1; }
                Ok(None) => {}
                Err(p) => {
                    // a panic in the code under test is data: it ends this recording
                    let msg = p.downcast_ref::<String>().cloned().or_else(|| p.downcast_ref::<&str>().map(|s| s.to_string())).unwrap_or_default();
                    writeln!(out, "{}", json!({"op": "panic", "args": [], "res": "panic", "error": msg, "obs": {"len": 0, "view": [], "holes": [], "stamp": 0}, "ref_ok": false})).unwrap();
                    lines += 1;
                    break;
                }
            }
        }
    }
    out.flush().unwrap();
    (lines, runs)
}

pub fn main(args: &[String]) -> i32 {
    let f = parse_flags(args);
    let format = f.get("format").map(|s| s.as_str()).unwrap_or("bytes");
    let (lines, runs) = match format {
        "bytes" => run::<BytesVec<usize, u32>>(&f, true),
        "bytes_be" => run::<BytesVec<usize, Be32>>(&f, true),
        "zerocopy" => run::<ZeroCopyVec<usize, u32>>(&f, true),
        "pco" => run::<PcoVec<usize, u32>>(&f, false),
        "lz4" => run::<LZ4Vec<usize, u32>>(&f, false),
        "zstd" => run::<ZstdVec<usize, u32>>(&f, false),
        other => { eprintln!("unsupported format {other}"); return 2; }
    };
    println!("{}", json!({"lines": lines, "runs": runs, "format": format}));
    0
}
