//! C08 / C20: every read path of a vector, for every range, against the reference contents.
//! `view` is the reference restricted to what the property talks about: one optional value per index
//! (None = deleted slot). Range reads must yield the non-deleted elements of [from, min(to, len)) in
//! order, index-addressed reads the element or nothing. Each call runs under catch_unwind.
use std::panic::{AssertUnwindSafe, catch_unwind};

use vecdb::{Cursor, ReadableVec};

use crate::vecreplay::Elem;

/// CachedVec budget that never grants a slot (reads must fall through to the inner vector)
pub static REFUSE: std::sync::atomic::AtomicUsize = std::sync::atomic::AtomicUsize::new(0);

pub struct ReadReport {
    pub calls: u64,
    /// (path, from, to, description) — disagreement or panic
    pub bad: Vec<(String, usize, usize, String)>,
}

fn guard<X>(f: impl FnOnce() -> X) -> Option<X> {
    catch_unwind(AssertUnwindSafe(f)).ok()
}

fn bits<T: Elem>(v: &[T]) -> Vec<u64> {
    v.iter().map(|x| x.bits()).collect()
}

pub fn boundaries(len: usize, b: usize) -> Vec<usize> {
    let mut v = vec![0, 1, len.saturating_sub(1), len, len + 1, len + 5];
    if b > 1 {
        let nb = len / b;
        for k in 0..=nb.min(3) {
            v.push(k * b);
            v.push(k * b + 1);
            v.push((k * b).saturating_sub(1));
        }
    } else {
        for k in 0..len.min(8) {
            v.push(k);
        }
    }
    v.sort();
    v.dedup();
    v
}

/// `cursor_ok`: whether position-addressed paths (Cursor, sorted reads) are expected to agree (false on raw
/// vectors with deleted slots: known finding D5, reported separately by the caller).
pub fn check_reads<T: Elem, R: ReadableVec<usize, T>>(
    r: &R,
    tag: &str,
    view: &[Option<T>],
    b: usize,
    cursor_ok: bool,
    rep: &mut ReadReport,
    cursor_bad: &mut u64,
) {
    let len = view.len();
    let bs = boundaries(len, b);
    let dense = |from: usize, to: usize| -> Vec<u64> {
        let f = from.min(len);
        let t = to.min(len);
        if f >= t { vec![] } else { view[f..t].iter().filter_map(|x| x.map(|y| y.bits())).collect() }
    };
    let mut note = |rep: &mut ReadReport, path: &str, from: usize, to: usize, got: Option<Vec<u64>>, want: &Vec<u64>| {
        rep.calls += 1;
        match got {
            None => rep.bad.push((format!("{tag}{path}"), from, to, "panicked".into())),
            Some(g) if &g != want => {
                if rep.bad.len() < 8 {
                    rep.bad.push((format!("{tag}{path}"), from, to, format!("got {} elements {:?}.., want {} elements {:?}..", g.len(), &g[..g.len().min(4)], want.len(), &want[..want.len().min(4)])));
                }
            }
            _ => {}
        }
    };
    if guard(|| r.len()) != Some(len) {
        rep.bad.push((format!("{tag}len"), 0, 0, format!("len() differs from the reference length {len}")));
        return;
    }
    for &from in &bs {
        for &to in &bs {
            let want = dense(from, to);
            note(rep, "collect_range_at", from, to, guard(|| bits(&r.collect_range_at(from, to))), &want);
            note(rep, "collect_range_dyn", from, to, guard(|| bits(&r.collect_range_dyn(from, to))), &want);
            note(rep, "read_into_at", from, to, guard(|| {
                let mut buf = vec![T::enc(1, 1)];
                r.read_into_at(from, to, &mut buf);
                if buf.first().map(|x| x.bits()) != Some(T::enc(1, 1).bits()) {
                    return vec![u64::MAX];
                }
                bits(&buf[1..])
            }), &want);
            note(rep, "for_each_range_dyn_at", from, to, guard(|| {
                let mut out = vec![];
                r.for_each_range_dyn_at(from, to, &mut |v: T| out.push(v.bits()));
                out
            }), &want);
            note(rep, "fold_range_at", from, to, guard(|| r.fold_range_at(from, to, vec![], |mut a: Vec<u64>, v: T| { a.push(v.bits()); a })), &want);
            note(rep, "try_fold_range_at", from, to, guard(|| {
                r.try_fold_range_at(from, to, vec![], |mut a: Vec<u64>, v: T| -> Result<Vec<u64>, ()> { a.push(v.bits()); Ok(a) }).unwrap()
            }), &want);
            note(rep, "for_each_range_at", from, to, guard(|| {
                let mut out = vec![];
                r.for_each_range_at(from, to, |v: T| out.push(v.bits()));
                out
            }), &want);
            // min / max over the range
            let wmin = {
                let f = from.min(len);
                let t = to.min(len);
                let xs: Vec<T> = if f >= t { vec![] } else { view[f..t].iter().filter_map(|x| *x).collect() };
                let mn = xs.iter().copied().fold(None, |a: Option<T>, v| match a { None => Some(v), Some(m) => Some(if v < m { v } else { m }) });
                let mx = xs.iter().copied().fold(None, |a: Option<T>, v| match a { None => Some(v), Some(m) => Some(if v > m { v } else { m }) });
                vec![mn.map(|x| x.bits()).unwrap_or(u64::MAX), mx.map(|x| x.bits()).unwrap_or(u64::MAX)]
            };
            note(rep, "min_at/max_at", from, to, guard(|| vec![r.min_at(from, to).map(|x| x.bits()).unwrap_or(u64::MAX), r.max_at(from, to).map(|x| x.bits()).unwrap_or(u64::MAX)]), &wmin);
            note(rep, "min_dyn/max_dyn", from, to, guard(|| vec![r.min_dyn(from, to).map(|x| x.bits()).unwrap_or(u64::MAX), r.max_dyn(from, to).map(|x| x.bits()).unwrap_or(u64::MAX)]), &wmin);
            // cursor: sequential and chunked
            let c1 = guard(|| {
                let mut c = Cursor::new(r);
                c.advance(from);
                let mut out = vec![];
                let n = to.saturating_sub(from);
                for _ in 0..n {
                    match c.next() { Some(v) => out.push(v.bits()), None => break }
                }
                out
            });
            // (Cursor::fold does not terminate on a raw vector with deleted slots - part of D5 - so it only runs on dense states)
            let c2 = if cursor_ok {
                guard(|| {
                    let mut c = Cursor::new(r);
                    c.advance(from);
                    c.fold(to.saturating_sub(from), vec![], |mut a: Vec<u64>, v: T| { a.push(v.bits()); a })
                })
            } else {
                Some(want.clone())
            };
            // sorted reads: all indices of the range, plus one beyond the end
            let idx: Vec<usize> = if from < to { (from..to.min(len + 2)).collect() } else { vec![] };
            let wsorted: Vec<u64> = idx.iter().filter_map(|&i| view.get(i).and_then(|x| x.map(|y| y.bits()))).collect();
            let c3 = guard(|| bits(&r.read_sorted_at(&idx)));
            if cursor_ok {
                note(rep, "cursor.next", from, to, c1, &want);
                note(rep, "cursor.fold", from, to, c2, &want);
                note(rep, "read_sorted_at", from, to, c3, &wsorted);
            } else {
                rep.calls += 3;
                if c1.as_ref() != Some(&want) || c2.as_ref() != Some(&want) || c3.as_ref() != Some(&wsorted) {
                    *cursor_bad += 1;
                }
            }
        }
        // index-addressed
        let want1: Vec<u64> = match view.get(from).copied().flatten() { Some(v) => vec![v.bits()], None => vec![] };
        note(rep, "collect_one_at", from, from + 1, guard(|| r.collect_one_at(from).map(|v| vec![v.bits()]).unwrap_or_default()), &want1);
    }
    note(rep, "collect", 0, len, guard(|| bits(&r.collect())), &dense(0, len));
    note(rep, "fold", 0, len, guard(|| r.fold(vec![], |mut a: Vec<u64>, v: T| { a.push(v.bits()); a })), &dense(0, len));
    note(rep, "collect_first/last", 0, len, guard(|| vec![r.collect_first().map(|x| x.bits()).unwrap_or(u64::MAX), r.collect_last().map(|x| x.bits()).unwrap_or(u64::MAX)]),
         &vec![view.first().copied().flatten().map(|x| x.bits()).unwrap_or(u64::MAX), view.last().copied().flatten().map(|x| x.bits()).unwrap_or(u64::MAX)]);
}

/// Object-safe subset, for boxed read-only clones.
pub fn check_reads_dyn<T: Elem>(r: &dyn vecdb::ReadableCloneableVec<usize, T>, tag: &str, view: &[Option<T>], b: usize, rep: &mut ReadReport) {
    let len = view.len();
    let bs = boundaries(len, b);
    if guard(|| r.len()) != Some(len) {
        rep.bad.push((format!("{tag}len"), 0, 0, format!("len() differs from the reference length {len}")));
        return;
    }
    for &from in &bs {
        for &to in &bs {
            let f = from.min(len);
            let t = to.min(len);
            let want: Vec<u64> = if f >= t { vec![] } else { view[f..t].iter().filter_map(|x| x.map(|y| y.bits())).collect() };
            let paths: Vec<(&str, Option<Vec<u64>>)> = vec![
                ("collect_range_dyn", guard(|| bits(&r.collect_range_dyn(from, to)))),
                ("for_each_range_dyn_at", guard(|| { let mut out = vec![]; r.for_each_range_dyn_at(from, to, &mut |v: T| out.push(v.bits())); out })),
                ("read_into_at", guard(|| { let mut buf = vec![]; r.read_into_at(from, to, &mut buf); bits(&buf) })),
            ];
            for (p, got) in paths {
                rep.calls += 1;
                match got {
                    None => rep.bad.push((format!("{tag}{p}"), from, to, "panicked".into())),
                    Some(g) if g != want => rep.bad.push((format!("{tag}{p}"), from, to, format!("got {} want {} elements", g.len(), want.len()))),
                    _ => {}
                }
            }
        }
        rep.calls += 1;
        let want1 = view.get(from).copied().flatten().map(|x| x.bits());
        match guard(|| r.collect_one_at(from).map(|x| x.bits())) {
            None => rep.bad.push((format!("{tag}collect_one_at"), from, from + 1, "panicked".into())),
            Some(g) if g != want1 => rep.bad.push((format!("{tag}collect_one_at"), from, from + 1, "differs".into())),
            _ => {}
        }
    }
}
