use std::collections::HashMap;
use std::path::PathBuf;
use std::sync::atomic::{AtomicU64, Ordering};

pub fn parse_flags(args: &[String]) -> HashMap<String, String> {
    let mut m = HashMap::new();
    let mut i = 0;
    while i < args.len() {
        if let Some(k) = args[i].strip_prefix("--") {
            if i + 1 < args.len() && !args[i + 1].starts_with("--") {
                m.insert(k.to_string(), args[i + 1].clone());
                i += 2;
            } else {
                m.insert(k.to_string(), "true".to_string());
                i += 1;
            }
        } else {
            i += 1;
        }
    }
    m
}

static CTR: AtomicU64 = AtomicU64::new(0);

/// Fresh scratch directory (tmpfs when available). Removed by `Scratch::drop`.
pub struct Scratch(pub PathBuf);
impl Scratch {
    pub fn new(tag: &str) -> Self {
        let base = if std::path::Path::new("/dev/shm").is_dir() {
            PathBuf::from("/dev/shm")
        } else {
            std::env::temp_dir()
        };
        let p = base.join(format!(
            "vh-{}-{}-{}",
            tag,
            std::process::id(),
            CTR.fetch_add(1, Ordering::Relaxed)
        ));
        let _ = std::fs::remove_dir_all(&p);
        std::fs::create_dir_all(&p).unwrap();
        Scratch(p)
    }
    pub fn path(&self) -> &std::path::Path {
        &self.0
    }
}
impl Drop for Scratch {
    fn drop(&mut self) {
        let _ = std::fs::remove_dir_all(&self.0);
    }
}

pub fn fnv(s: &str) -> u64 {
    let mut h: u64 = 0xcbf29ce484222325;
    for b in s.bytes() {
        h ^= b as u64;
        h = h.wrapping_mul(0x100000001b3);
    }
    h
}
