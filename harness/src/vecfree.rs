//! C09: seeded lock-granular schedules of one writer and several readers of a stored vector (all formats),
//! with region growth, relocation and file growth happening during reads.
//!
//! The writer pushes seeded batch sizes and calls write(); a second vector behind it in the file forces the data
//! region to relocate when it grows. Readers use read-only clones: len() followed by reads of everything below it
//! (collect, fold with closure pauses, last element). Every lock request and every closure pause parks at the
//! gate; a seeded controller releases one thread at a time. Oracle: each read returns exactly the writer's
//! sequence below the observed length, lengths never decrease, nothing panics; no verdict is taken from time.
use std::collections::BTreeSet;
use std::io::Write;
use std::sync::Arc;
use std::sync::atomic::{AtomicBool, AtomicU64, Ordering};
use std::time::{Duration, Instant};

use rand::rngs::StdRng;
use rand::{Rng, SeedableRng};
use rawdb::Database;
use rawdb::verif::locks::{self, Phase};
use serde_json::{Value, json};
use vecdb::{BytesVec, LZ4Vec, PcoVec, ReadableVec, ZeroCopyVec, ZstdVec};

use crate::util::{Scratch, parse_flags};
use crate::vecreplay::{Be32, Elem, VK};

fn val<T: Elem>(i: usize) -> T { T::enc((i / 1024 + 1) as u64, (i % 1024) as u64) }

fn panic_msg(p: Box<dyn std::any::Any + Send>) -> String {
    p.downcast_ref::<String>().cloned().or_else(|| p.downcast_ref::<&str>().map(|s| s.to_string())).unwrap_or_default()
}

fn reader<RO: ReadableVec<usize, T>, T: Elem>(ro: RO, tid: u32, seed: u64, nops: usize, stop: Arc<AtomicBool>, yg: Arc<locks::RwLock<()>>) -> Result<u64, String> {
    locks::set_thread(tid);
    let mut rng = StdRng::seed_from_u64(seed);
    let mut last = 0usize;
    let mut ops = 0u64;
    let r = std::panic::catch_unwind(std::panic::AssertUnwindSafe(|| -> Result<(), String> {
        for _ in 0..nops {
            if stop.load(Ordering::Relaxed) { break; }
            let l = ro.len();
            if l < last { return Err(format!("observed length went from {last} to {l}")); }
            last = l;
            let choice = rng.random_range(0..3);
            let from = if l == 0 { 0 } else { [0, l - 1, l / 2, l.saturating_sub(5000)][rng.random_range(0..4)] };
            let got: Vec<T> = match choice {
                0 => ro.fold_range_at(from, l, Vec::new(), |mut a: Vec<T>, v: T| { a.push(v); a }),
                1 => {
                    let mut c = 0usize;
                    ro.fold_range_at(from, l, Vec::new(), |mut a: Vec<T>, v: T| { a.push(v); c += 1; if c % 997 == 1 { drop(yg.write()); } a })
                }
                _ => { if l == 0 { vec![] } else { match ro.collect_one_at(l - 1) { Some(v) => { let mut x: Vec<T> = (from..l - 1).map(val::<T>).collect(); x.push(v); x } None => return Err(format!("SHORT observed length {l} but element {} is not readable (collect_one_at)", l - 1)) } } }
            };
            ops += 1;
            if got.len() != l - from { return Err(format!("SHORT observed length {l}, reading [{from}, {l}) returned {} elements", got.len())); }
            if let Some(p) = got.iter().enumerate().position(|(k, v)| v.bits() != val::<T>(from + k).bits()) {
                return Err(format!("WRONG observed length {l}, element {} read {:?}, the writer pushed {:?} (first wrong of [{from}, {l}))", from + p, got[p], val::<T>(from + p)));
            }
        }
        Ok(())
    }));
    locks::set_thread(0);
    match r { Ok(Ok(())) => Ok(ops), Ok(Err(e)) => Err(e), Err(p) => Err(format!("PANIC {}", panic_msg(p))) }
}

struct Out { ops: u64, grants: u64, distinct: BTreeSet<u64>, timeouts: u64, known: u64, known_ex: Option<Value>, known37: u64, known37_ex: Option<Value>, violations: Vec<Value>, writes: u64 }

fn run<V: VK + Send + 'static>(f: &std::collections::HashMap<String, String>, cmp: bool) -> Out where V::RO: Send + 'static {
    let seed0: u64 = f.get("seed").map(|s| s.parse().unwrap()).unwrap_or(1);
    let schedules: u64 = f.get("schedules").map(|s| s.parse().unwrap()).unwrap_or(30);
    let nreaders: u32 = f.get("readers").map(|s| s.parse().unwrap()).unwrap_or(2);
    let nwrites: usize = f.get("writes").map(|s| s.parse().unwrap()).unwrap_or(6);
    let nreads: usize = f.get("reads").map(|s| s.parse().unwrap()).unwrap_or(6);
    let per_page = 16 * 1024 / <V::T as Elem>::SIZE;
    let mut out = Out { ops: 0, grants: 0, distinct: BTreeSet::new(), timeouts: 0, known: 0, known_ex: None, known37: 0, known37_ex: None, violations: vec![], writes: 0 };
    for k in 0..schedules {
        let seed = seed0.wrapping_mul(1_000_003).wrapping_add(k);
        let scratch = Scratch::new("vf");
        let db = Database::open(scratch.path()).unwrap();
        let mut v = V::open(&db, "v", 0, 1).unwrap();
        let mut filler = V::open(&db, "w", 0, 1).unwrap(); // behind v in the file: v must relocate to grow
        let mut rng = StdRng::seed_from_u64(seed ^ 0x77);
        let pre = [0usize, 1, 1000, 4096, 5000][rng.random_range(0..5)];
        for i in 0..pre { v.push(val::<V::T>(i)); }
        v.write().unwrap();
        filler.push(val::<V::T>(0));
        filler.write().unwrap();
        let ros: Vec<V::RO> = (0..nreaders).map(|_| v.ro()).collect();
        let stop = Arc::new(AtomicBool::new(false));
        let done = Arc::new(AtomicU64::new(0));
        locks::start(true);
        let sizes = [1usize, 100, 1000, 2048, 4096, 5000, 10000];
        let batches: Vec<usize> = (0..nwrites).map(|_| sizes[rng.random_range(0..sizes.len())]).collect();
        let (dn, stw) = (done.clone(), stop.clone());
        let bt = batches.clone();
        let wh = std::thread::spawn(move || -> Result<u64, String> {
            locks::set_thread(1);
            let r = std::panic::catch_unwind(std::panic::AssertUnwindSafe(|| -> Result<u64, String> {
                let mut n = 0;
                for b in bt {
                    if stw.load(Ordering::Relaxed) { break; }
                    let base = v.vlen();
                    for i in 0..b { v.push(val::<V::T>(base + i)); }
                    v.write().map_err(|e| format!("{e:?}"))?;
                    n += 1;
                }
                Ok(n)
            }));
            locks::set_thread(0);
            dn.fetch_add(1, Ordering::SeqCst);
            match r { Ok(x) => x, Err(p) => Err(format!("PANIC {}", panic_msg(p))) }
        });
        let mut rhs = vec![];
        for (i, ro) in ros.into_iter().enumerate() {
            let t = i as u32 + 2;
            let (dn, st) = (done.clone(), stop.clone());
            let yg = Arc::new(locks::RwLock::new(()));
            locks::register(&*yg, "yield");
            rhs.push(std::thread::spawn(move || { let r = reader::<V::RO, V::T>(ro, t, seed ^ (t as u64 * 7919), nreads, st, yg); dn.fetch_add(1, Ordering::SeqCst); r }));
        }
        let mut crng = StdRng::seed_from_u64(seed ^ 0x5EED);
        let (mut seen, mut parked, mut hash) = (0usize, Vec::<u32>::new(), seed);
        let (t0, mut last, mut timed_out) = (Instant::now(), Instant::now(), false);
        while done.load(Ordering::SeqCst) < (nreaders + 1) as u64 {
            let evs = locks::snapshot();
            while seen < evs.len() {
                let e = &evs[seen];
                seen += 1;
                if e.thread == 0 { continue; }
                if e.phase == Phase::Req { parked.push(e.thread); }
                last = Instant::now();
            }
            if !parked.is_empty() {
                let i = crng.random_range(0..parked.len());
                let t = parked.swap_remove(i);
                locks::grant(t, 1);
                out.grants += 1;
                hash = hash.wrapping_mul(31).wrapping_add(t as u64);
                last = Instant::now();
                let w = Instant::now();
                while locks::log_len() == seen && w.elapsed() < Duration::from_micros(300) { std::hint::spin_loop(); }
            } else {
                std::thread::sleep(Duration::from_micros(50));
            }
            if last.elapsed() > Duration::from_secs(10) || t0.elapsed() > Duration::from_secs(90) { timed_out = true; break; }
        }
        stop.store(true, Ordering::SeqCst);
        let _ = locks::stop();
        if timed_out { out.timeouts += 1; continue; }
        match wh.join().unwrap() {
            Ok(n) => out.writes += n,
            Err(e) => out.violations.push(json!({"seed": seed, "thread": "writer", "what": e, "batches": batches, "pre": pre})),
        }
        for (i, h) in rhs.into_iter().enumerate() {
            match h.join().unwrap() {
                Ok(n) => out.ops += n,
                Err(e) => {
                    let v = json!({"seed": seed, "thread": format!("reader {}", i + 1), "what": e, "batches": batches, "pre": pre});
                    // known finding D18: compressed formats, a wrong value inside the page that was the partial last page
                    // when the reader started (the writer re-encodes that page in place)
                    // known finding D37: compressed formats, a short read: the region relocated between the reader's placement
                    // snapshot and its page-index guard, new page entries are decoded from the old extent and decoding fails
                    if cmp && e.starts_with("WRONG ") { out.known += 1; out.known_ex.get_or_insert(v); }
                    else if cmp && e.starts_with("SHORT ") { out.known37 += 1; out.known37_ex.get_or_insert(v); }
                    else { out.violations.push(v); }
                }
            }
        }
        let _ = per_page;
        out.distinct.insert(hash);
        if !out.violations.is_empty() { break; }
    }
    out
}

pub fn main(args: &[String]) -> i32 {
    let f = parse_flags(args);
    let format = f.get("format").map(|s| s.as_str()).unwrap_or("bytes");
    let o = match format {
        "bytes" => run::<BytesVec<usize, u32>>(&f, false),
        "bytes_be" => run::<BytesVec<usize, Be32>>(&f, false),
        "zerocopy" => run::<ZeroCopyVec<usize, u64>>(&f, false),
        "pco" => run::<PcoVec<usize, u32>>(&f, true),
        "lz4" => run::<LZ4Vec<usize, u64>>(&f, true),
        "zstd" => run::<ZstdVec<usize, u32>>(&f, true),
        other => { eprintln!("unsupported format {other}"); return 2; }
    };
    let known: Vec<Value> = [("D18", o.known, o.known_ex), ("D37", o.known37, o.known37_ex)].into_iter().filter(|k| k.1 > 0).map(|(d, c, e)| json!({"dev": d, "count": c, "example": e})).collect();
    let out = json!({"format": format, "reads": o.ops, "writes": o.writes, "lock_grants": o.grants, "distinct_schedules": o.distinct.len(), "timeouts": o.timeouts,
        "known": known, "violations": o.violations});
    writeln!(std::io::stdout(), "{}", out).unwrap();
    if o.violations.is_empty() { 0 } else { 1 }
}
