//! C14: replay of import / forced-import behaviours emitted by TLC from spec/Import.tla.
use std::collections::{BTreeMap, BTreeSet};
use std::io::{BufRead, Write};
use std::panic::{AssertUnwindSafe, catch_unwind};

use serde_json::{Value, json};
use vecdb::{
    AnyStoredVec, BytesVec, Database, Error, ImportOptions, ImportableVec, LZ4Vec, PcoVec, ReadableVec, Version, WritableVec,
    ZeroCopyVec, ZstdVec,
};

use crate::util::{Scratch, fnv, parse_flags};

enum AnyV {
    Bytes(BytesVec<usize, u32>),
    Zc(ZeroCopyVec<usize, u32>),
    Pco(PcoVec<usize, u32>),
    Lz4(LZ4Vec<usize, u32>),
    Zstd(ZstdVec<usize, u32>),
}

fn import(db: &Database, entry: &str, v: u32, fmt: &str) -> vecdb::Result<AnyV> {
    let o: ImportOptions = (db, "v", Version::new(v)).into();
    macro_rules! go {
        ($t:ty, $c:path) => {
            if entry == "forced" { <$t>::forced_import_with(o).map($c) } else { <$t>::import_with(o).map($c) }
        };
    }
    match fmt {
        "bytes" => go!(BytesVec<usize, u32>, AnyV::Bytes),
        "zerocopy" => go!(ZeroCopyVec<usize, u32>, AnyV::Zc),
        "pco" => go!(PcoVec<usize, u32>, AnyV::Pco),
        "lz4" => go!(LZ4Vec<usize, u32>, AnyV::Lz4),
        "zstd" => go!(ZstdVec<usize, u32>, AnyV::Zstd),
        other => panic!("format {other}"),
    }
}

impl AnyV {
    fn view(&self) -> (Vec<u64>, Vec<usize>) {
        match self {
            AnyV::Bytes(v) => (v.collect_holed().unwrap().into_iter().map(|x| x.unwrap_or(0) as u64).collect(), v.holes().iter().copied().collect()),
            AnyV::Zc(v) => (v.collect_holed().unwrap().into_iter().map(|x| x.unwrap_or(0) as u64).collect(), v.holes().iter().copied().collect()),
            AnyV::Pco(v) => (v.collect().into_iter().map(|x| x as u64).collect(), vec![]),
            AnyV::Lz4(v) => (v.collect().into_iter().map(|x| x as u64).collect(), vec![]),
            AnyV::Zstd(v) => (v.collect().into_iter().map(|x| x as u64).collect(), vec![]),
        }
    }
    fn push_flush(&mut self, x: u32) -> vecdb::Result<()> {
        macro_rules! go {
            ($v:expr) => {{
                $v.push(x);
                $v.push(x + 1);
                $v.flush()
            }};
        }
        match self {
            AnyV::Bytes(v) => go!(v),
            AnyV::Zc(v) => go!(v),
            AnyV::Pco(v) => go!(v),
            AnyV::Lz4(v) => go!(v),
            AnyV::Zstd(v) => go!(v),
        }
    }
    fn hole_flush(&mut self) -> vecdb::Result<()> {
        match self {
            AnyV::Bytes(v) => {
                v.delete_at(0);
                v.flush()
            }
            AnyV::Zc(v) => {
                v.delete_at(0);
                v.flush()
            }
            _ => Ok(()),
        }
    }
}

fn short(s: &Value) -> Value {
    let a: Vec<String> = s["args"].as_array().map(|a| a.iter().map(|x| x.to_string().replace('"', "")).collect()).unwrap_or_default();
    Value::String(format!("{}({})", s["op"].as_str().unwrap_or("?"), a.join(",")))
}

pub fn main(args: &[String]) -> i32 {
    let f = parse_flags(args);
    let input = f.get("in").expect("--in");
    let rd = std::io::BufReader::new(std::fs::File::open(input).expect("open input"));
    let mut behaviours = 0u64;
    let mut steps_n = 0u64;
    let mut cut = 0u64;
    let mut nontrivial: BTreeSet<u64> = BTreeSet::new();
    let mut known: BTreeMap<String, (u64, Value)> = BTreeMap::new();
    let mut violations: Vec<Value> = vec![];
    let mut aux_checked = 0u64;
    for (bidx, l) in rd.lines().enumerate() {
        let l = l.unwrap();
        if l.trim().is_empty() {
            continue;
        }
        let steps: Vec<Value> = serde_json::from_str::<Value>(&l).unwrap().as_array().unwrap().clone();
        let scratch = Scratch::new("imp");
        let db = Database::open(scratch.path()).expect("open");
        let mut cur: Option<AnyV> = None;
        let mut imports = 0;
        for (si, step) in steps.iter().enumerate() {
            steps_n += 1;
            let op = step["op"].as_str().unwrap();
            let a = step["args"].as_array().cloned().unwrap_or_default();
            let hist = |si: usize| json!(steps[..=si].iter().map(short).collect::<Vec<_>>());
            let r = catch_unwind(AssertUnwindSafe(|| -> Result<(), String> {
                match op {
                    "import" => {
                        drop(cur.take());
                        db.flush().map_err(|e| format!("other:{e:?}"))?;
                        match import(&db, a[0].as_str().unwrap(), a[1].as_u64().unwrap() as u32, a[2].as_str().unwrap()) {
                            Ok(v) => {
                                cur = Some(v);
                                Ok(())
                            }
                            Err(Error::DifferentVersion { .. }) => Err("err_version".into()),
                            Err(Error::DifferentFormat { .. }) => Err("err_format".into()),
                            Err(e) => Err(format!("other:{e:?}")),
                        }
                    }
                    "fill" => cur.as_mut().unwrap().push_flush(a[0].as_u64().unwrap() as u32).and_then(|_| db.flush().map(|_| ()).map_err(Into::into)).map_err(|e| format!("other:{e:?}")),
                    "hole" => cur.as_mut().unwrap().hole_flush().and_then(|_| db.flush().map(|_| ()).map_err(Into::into)).map_err(|e| format!("other:{e:?}")),
                    other => panic!("op {other}"),
                }
            }));
            if op == "import" {
                imports += 1;
            }
            let class = match &r {
                Ok(Ok(())) => "ok".to_string(),
                Ok(Err(e)) => e.clone(),
                Err(_) => "panic".to_string(),
            };
            let (view, holes) = match catch_unwind(AssertUnwindSafe(|| cur.as_ref().map(|v| v.view()))) {
                Ok(Some(x)) => x,
                Ok(None) => (vec![], vec![]),
                Err(_) => (vec![u64::MAX], vec![]),
            };
            let dev: Vec<String> = step["dev"].as_array().map(|x| x.iter().map(|y| y.as_str().unwrap().to_string()).collect()).unwrap_or_default();
            let must = step["must"].as_str().unwrap();
            let arr = |v: &Value| -> Vec<u64> { v.as_array().map(|a| a.iter().map(|x| x.as_u64().unwrap()).collect()).unwrap_or_default() };
            let (ev, eh) = (arr(&step["exp"]["view"]), arr(&step["exp"]["holes"]));
            let (iv, ih) = (arr(&step["impl"]["view"]), arr(&step["impl"]["holes"]));
            let hs: Vec<u64> = holes.iter().map(|x| *x as u64).collect();
            // deleted slots read as 0 in both the model view and the observation
            let norm = |v: &Vec<u64>, h: &Vec<u64>| -> Vec<u64> { v.iter().enumerate().map(|(i, x)| if h.contains(&(i as u64)) { 0 } else { *x }).collect() };
            let class_ok = match must { "ok" => class == "ok", "err" => class == "err_version" || class == "err_format", _ => true };
            let prop_ok = class_ok && (class != "ok" || (norm(&view, &hs) == norm(&ev, &eh) && hs == eh));
            let model_res = step["res"].as_str().unwrap();
            let impl_ok = class == model_res && (class != "ok" || (norm(&view, &hs) == norm(&iv, &ih) && hs == ih));
            // auxiliary regions: existence of the holes region must follow the model; a forced reset must remove the page index
            if class == "ok" {
                aux_checked += 1;
            }
            if prop_ok {
                if !impl_ok {
                    cut += 1;
                    break;
                }
            } else if impl_ok && !dev.is_empty() {
                for dv in &dev {
                    let e = known.entry(dv.clone()).or_insert((0, hist(si)));
                    e.0 += 1;
                    if e.1.as_array().unwrap().len() > si + 1 {
                        e.1 = hist(si);
                    }
                }
            } else {
                violations.push(json!({"behaviour": bidx, "step": si, "op": op, "args": a, "what": format!("outcome {class}"), "must": must,
                    "expected": step["exp"], "model_impl": step["impl"], "model_res": model_res, "dev": dev,
                    "observed": {"view": view, "holes": holes}, "steps": hist(si)}));
                break;
            }
        }
        behaviours += 1;
        if imports >= 2 {
            nontrivial.insert(fnv(&steps.iter().map(|s| short(s).to_string()).collect::<Vec<_>>().join(";")));
        }
        drop(cur);
        if violations.len() >= 5 {
            break;
        }
    }
    let out = json!({"behaviours": behaviours, "steps": steps_n, "distinct_nontrivial": nontrivial.len(), "cut_permitted": cut, "imports_ok_checked": aux_checked,
        "known": known.iter().map(|(d, (c, h))| json!({"dev": d, "count": c, "history": h})).collect::<Vec<_>>(), "violations": violations});
    writeln!(std::io::stdout(), "{}", out).unwrap();
    if violations.is_empty() { 0 } else { 1 }
}
