//! vh — conformance harness binding the TLA+ specifications in /verif/spec to the real anydb code.
//! Subcommands (one per conformance direction / subsystem); each reads ndjson emitted by TLC
//! (behaviours) or writes ndjson traces, and prints a JSON summary on stdout.
mod codecreplay;
mod concmodel;
mod concreplay;
mod vecconc;
mod vecrecord;
mod vecfree;
mod crashreplay;
mod eagerreplay;
mod importreplay;
mod lazyreplay;
mod lockmine;
mod sched;
mod openreplay;
mod rawrecord;
mod rawreplay;
mod reads;
mod util;
mod vecreplay;

fn main() {
    let args: Vec<String> = std::env::args().collect();
    if args.len() < 2 {
        eprintln!("usage: vh <subcommand> ...");
        std::process::exit(2);
    }
    // panics in the code under test are data: keep them quiet
    if std::env::var("VH_PANIC").is_err() {
        std::panic::set_hook(Box::new(|_| {}));
    }
    let code = match args[1].as_str() {
        "vecreplay" => vecreplay::main(&args[2..]),
        "rawreplay" => rawreplay::main(&args[2..]),
        "importreplay" => importreplay::main(&args[2..]),
        "crashreplay" => crashreplay::main(&args[2..]),
        "lockmine" => lockmine::main(&args[2..]),
        "sched" => sched::main(&args[2..]),
        "eagerreplay" => eagerreplay::main(&args[2..]),
        "codecreplay" => codecreplay::main(&args[2..]),
        "lazyreplay" => lazyreplay::main(&args[2..]),
        "openreplay" => openreplay::main(&args[2..]),
        "concreplay" => concreplay::main(&args[2..]),
        "concmodel" => concmodel::main(&args[2..]),
        "rawrecord" => rawrecord::main(&args[2..]),
        "vecconc" => vecconc::main(&args[2..]),
        "vecrecord" => vecrecord::main(&args[2..]),
        "vecfree" => vecfree::main(&args[2..]),
        "openprobe" => openreplay::probe_main(&args[2..]),
        other => {
            eprintln!("unknown subcommand {other}");
            2
        }
    };
    std::process::exit(code);
}
