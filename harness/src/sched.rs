//! C11 (and schedule replay in general): run a chosen interleaving of real public calls under the lock tap's gate.
//!
//! Input (JSON file, --in): {"threads":[{"op":"compact"}, {"op":"region_flush_data"}, ...],
//!                           "progs":[[["acq","regions","R"],...], ...]   (the reduced, instance-resolved lock program of each thread)
//!                           "order":[t, t, ...]  (thread numbers, 1-based: the order in which modelled acquisitions happen in the
//!                                                 model's trace; the last one of each thread is the request on which it blocks)}
//! The controller lets each thread run freely through lock requests that are not part of its modelled program and stops
//! it at every modelled request until the order says it is that thread's turn. After the last step it checks the
//! wait-for graph built from the tap's own request/acquired/released events: a cycle with every thread blocked is a
//! deadlock of the real code. Runs in its own process: a confirmed deadlock leaves the worker threads stuck.
use std::collections::{BTreeMap, HashMap};
use std::io::Write;
use std::sync::Arc;
use std::time::{Duration, Instant};

use rawdb::verif::locks::{self, LockEvent, Phase};
use rawdb::Database;
use serde_json::{Value, json};
use vecdb::{AnyStoredVec, ImportOptions, ImportableVec, PcoVec, ReadableVec, StoredVec, Version, WritableVec};

use crate::util::{Scratch, parse_flags};

fn page(n: usize) -> Vec<u8> {
    vec![5u8; n]
}

type Op = Box<dyn FnOnce() + Send>;

/// Builds the shared database and the per-thread operations. Regions: "r1" (target 1), "r2" (target 2, last in the file);
/// vector "v" (PcoVec) for the vector operations.
fn build(db: &Database, names: &[String]) -> Vec<Op> {
    let r1 = db.create_region_if_needed("r1").unwrap();
    // an optional hole right behind r1 (for the adjacent-hole growth path)
    let want_hole = names.iter().any(|n| n == "write_adjacent_hole");
    if want_hole {
        let h = db.create_region_if_needed("h").unwrap();
        h.write(&page(100)).unwrap();
    }
    let r2 = db.create_region_if_needed("r2").unwrap();
    r1.write(&page(100)).unwrap();
    r2.write(&page(100)).unwrap();
    if want_hole {
        db.flush().unwrap();
        db.remove_region("h").unwrap();
        db.flush().unwrap();
    }
    let needs_vec = names.iter().any(|n| n.starts_with("cmp_"));
    let vec: Option<Arc<parking_lot::Mutex<PcoVec<usize, u32>>>> = if needs_vec {
        let o: ImportOptions = (db, "v", Version::ONE).into();
        let mut v = PcoVec::<usize, u32>::forced_import_with(o).unwrap();
        for i in 0..5000 {
            v.push(i);
        }
        v.flush().unwrap();
        Some(Arc::new(parking_lot::Mutex::new(v)))
    } else {
        None
    };
    db.flush().unwrap();
    // read-only clone for the reader threads (taken before the workers start: the vector itself belongs to the writer)
    let ro = vec.as_ref().map(|v| v.lock().read_only_clone());
    // make r1 dirty for region-flush style operations
    if names.iter().any(|n| n == "region_flush_data") {
        r1.write(&page(10)).unwrap();
    }
    if let Some(v) = &vec {
        if names.iter().any(|n| n.starts_with("cmp_write") || n == "cmp_flush") {
            let mut g = v.lock();
            let n = if names.iter().any(|n| n == "cmp_write_slow_fill_page") { 4000 } else { 10 };
            for i in 0..n {
                g.push(i);
            }
        }
    }
    let mut ops: Vec<Op> = vec![];
    for n in names {
        let db = db.clone();
        let vec = vec.clone();
        let ro = ro.clone();
        let op: Op = match n.as_str() {
            "compact" => Box::new(move || { let _ = db.compact(); }),
            "region_flush_data" => Box::new(move || { let _ = db.get_region("r1").unwrap().flush(); }),
            "set_min_len_grow" => Box::new(move || { let _ = db.set_min_len(8 << 20); }),
            "set_min_regions" => Box::new(move || { let _ = db.set_min_regions(3000); }),
            "write_last_grow_file" => Box::new(move || { let _ = db.get_region("r2").unwrap().write(&page(2 << 20)); }),
            "rename" => Box::new(move || {
                // the vector's data region when there is one, else r1
                let r = db.get_region("v/usize").or_else(|| db.get_region("r1")).unwrap();
                let _ = r.rename("renamed");
            }),
            "write_fits" | "truncate_write" => Box::new(move || { let _ = db.get_region("r1").unwrap().write(&page(10)); }),
            "truncate" => Box::new(move || { let _ = db.get_region("r1").unwrap().truncate(10); }),
            "write_adjacent_hole" | "write_reloc_end" => Box::new(move || { let _ = db.get_region("r1").unwrap().write(&page(5000)); }),
            "write_last" => Box::new(move || { let _ = db.get_region("r2").unwrap().write(&page(5000)); }),
            "write_reloc_end_grow_file" => Box::new(move || { let _ = db.get_region("r1").unwrap().write(&page(2 << 20)); }),
            "remove" => Box::new(move || { let _ = db.remove_region("r1"); }),
            "create" => Box::new(move || { let _ = db.create_region_if_needed("fresh"); }),
            "db_flush_dirty" | "db_flush_clean" => Box::new(move || { let _ = db.flush(); }),
            "region_flush_clean" => Box::new(move || { let _ = db.get_region("r1").unwrap().flush(); }),
            "reader" => Box::new(move || { let r = db.get_region("r1").unwrap().create_reader(); let _ = r.read_all().len(); }),
            "db_flush" => Box::new(move || { let _ = db.flush(); }),
            "cmp_write_fast" | "cmp_write_slow_fill_page" | "cmp_flush" => {
                let v = vec.unwrap();
                let flush = n == "cmp_flush";
                Box::new(move || { let mut g = v.lock(); if flush { let _ = g.flush(); } else { let _ = g.write(); } })
            }
            "cmp_collect" => { let ro = ro.unwrap(); Box::new(move || { let _ = ro.collect(); }) }
            // the buffered file-IO scan of a read-only clone (taken by the generic read paths above the crossover size)
            "cmp_fold_stored_io" => { let ro = ro.unwrap(); Box::new(move || { vecdb::verif::set_mmap_crossover_bytes(0); let _ = ro.fold_range_at(0, 5000, 0u64, |a, x| a + x as u64); }) }
            other => panic!("sched: operation {other} not supported"),
        };
        ops.push(op);
    }
    ops
}

/// region index -> abstract lock name, computed before the worker threads start (the controller must never take a lock)
fn index_map(db: &Database) -> HashMap<usize, String> {
    let mut m = HashMap::new();
    for r in db.regions().index_to_region().iter().flatten() {
        let id = r.meta().id().to_string();
        let n = match id.as_str() {
            "r1" | "v/usize" => "meta#1",
            "r2" => "meta#2",
            _ => "metax",
        };
        m.insert(r.index(), n.to_string());
    }
    m
}

fn abstract_lock(e: &LockEvent, idx: &HashMap<usize, String>) -> String {
    if let Some(i) = e.class.strip_prefix("meta#") {
        let i: usize = i.parse().unwrap();
        idx.get(&i).cloned().unwrap_or_else(|| "metax".into())
    } else if e.class == "pages" {
        "pages#1".into()
    } else {
        e.class.clone()
    }
}

pub fn main(args: &[String]) -> i32 {
    let f = parse_flags(args);
    let spec: Value = serde_json::from_str(&std::fs::read_to_string(f.get("in").expect("--in")).unwrap()).unwrap();
    let names: Vec<String> = spec["threads"].as_array().unwrap().iter().map(|t| t["op"].as_str().unwrap().to_string()).collect();
    let progs: Vec<Vec<(String, String, bool)>> = spec["progs"].as_array().unwrap().iter().map(|p| {
        p.as_array().unwrap().iter().filter(|i| i[0] == "acq").map(|i| (i[0].as_str().unwrap().to_string(), i[1].as_str().unwrap().to_string(), i[2] == "W")).collect()
    }).collect();
    let order: Vec<usize> = spec["order"].as_array().unwrap().iter().map(|x| x.as_u64().unwrap() as usize).collect();
    let nt = names.len();
    let scratch = Scratch::new("sched");
    let db = Database::open(scratch.path()).unwrap();
    // note: meta locks held by the name-resolution in `abstract_lock` are taken on the controller thread (id 0, never gated)
    let ops = build(&db, &names);
    let idx = index_map(&db);
    locks::start(true);
    let mut handles = vec![];
    for (i, op) in ops.into_iter().enumerate() {
        handles.push(std::thread::spawn(move || {
            locks::set_thread(i as u32 + 1);
            op();
        }));
    }
    // controller
    let mut pos = vec![0usize; nt];        // modelled acquisitions already passed, per thread
    let mut seen = 0usize;                 // events consumed
    let mut parked: HashMap<usize, (String, bool)> = HashMap::new(); // thread -> modelled request it is parked on
    let mut step = 0usize;
    let deadline = Instant::now() + Duration::from_secs(20);
    let mut last_progress = Instant::now();
    let mut blocked_final: Vec<usize> = vec![];
    loop {
        let evs = locks::snapshot();
        let mut progressed = false;
        while seen < evs.len() {
            let e = &evs[seen];
            seen += 1;
            progressed = true;
            let t = e.thread as usize;
            if t == 0 || t > nt {
                continue;
            }
            if e.phase == Phase::Req {
                let l = abstract_lock(e, &idx);
                let next = progs[t - 1].get(pos[t - 1]);
                let canon = |x: &str| if x.starts_with("metax") { "metax".to_string() } else { x.to_string() };
                if next.map(|n| canon(&n.1) == canon(&l) && n.2 == e.write).unwrap_or(false) {
                    parked.insert(t, (l, e.write));
                } else {
                    locks::grant(t as u32, 1); // not part of the modelled program: let it pass
                }
            }
        }
        // whose turn is it?
        if step < order.len() {
            let t = order[step];
            if parked.contains_key(&t) {
                parked.remove(&t);
                pos[t - 1] += 1;
                locks::grant(t as u32, 1);
                step += 1;
                progressed = true;
                if step == order.len() || !order[step..].contains(&t) {
                    blocked_final.push(t);
                }
            } else if handles[t - 1].is_finished() {
                step += 1; // the thread ended before reaching its modelled request (program differs from the mined one)
                progressed = true;
            }
        }
        if progressed {
            last_progress = Instant::now();
        }
        let all_done = handles.iter().all(|h| h.is_finished());
        if all_done {
            break;
        }
        if step >= order.len() && last_progress.elapsed() > Duration::from_millis(400) {
            break;
        }
        if Instant::now() > deadline {
            break;
        }
        std::thread::sleep(Duration::from_millis(1));
    }
    // structural verdict from the tap log
    let evs = locks::snapshot();
    let mut held: BTreeMap<(usize, usize), (bool, String)> = BTreeMap::new(); // (thread, lock inst) -> (write, name)
    let mut waiting: BTreeMap<usize, (usize, bool, String)> = BTreeMap::new();
    for e in &evs {
        let t = e.thread as usize;
        if t == 0 {
            continue;
        }
        match e.phase {
            Phase::Req => { waiting.insert(t, (e.inst, e.write, e.class.clone())); }
            Phase::Got => { waiting.remove(&t); held.insert((t, e.inst), (e.write, e.class.clone())); }
            Phase::Rel => { held.remove(&(t, e.inst)); }
        }
    }
    let finished: Vec<bool> = handles.iter().map(|h| h.is_finished()).collect();
    // a thread parked at the gate (not yet granted) is not blocked by a lock
    let stuck: Vec<usize> = (1..=nt).filter(|t| !finished[t - 1] && waiting.contains_key(t) && !parked.contains_key(t)).collect();
    // wait-for edges: t -> holder of the lock t requests (any other holder), or the queued writer in front of a reader
    let mut edges: Vec<(usize, usize)> = vec![];
    for (&t, (inst, w, _)) in &waiting {
        if parked.contains_key(&t) { continue; }
        for ((h, hi), (hw, _)) in &held {
            if hi == inst && *h != t && (*w || *hw) {
                edges.push((t, *h));
            }
        }
        if !*w {
            for (&t2, (i2, w2, _)) in &waiting {
                if t2 != t && i2 == inst && *w2 {
                    edges.push((t, t2));
                }
            }
        }
    }
    // cycle detection
    let mut cyc = false;
    for &s in &stuck {
        let mut frontier = vec![s];
        let mut seen_n = vec![];
        while let Some(x) = frontier.pop() {
            for (a, b) in &edges {
                if *a == x {
                    if *b == s { cyc = true; }
                    if !seen_n.contains(b) { seen_n.push(*b); frontier.push(*b); }
                }
            }
        }
    }
    let deadlock = cyc && stuck.len() >= 2 && stuck.iter().all(|t| edges.iter().any(|(a, _)| a == t));
    let out = json!({"threads": names, "finished": finished, "stuck": stuck, "edges": edges, "deadlock": deadlock,
        "steps_done": step, "steps_total": order.len(),
        "waiting": waiting.iter().map(|(t, (_, w, c))| json!([t, c, if *w {"W"} else {"R"}])).collect::<Vec<_>>(),
        "held": held.iter().map(|((t, _), (w, c))| json!([t, c, if *w {"W"} else {"R"}])).collect::<Vec<_>>()});
    println!("{}", out);
    std::io::stdout().flush().unwrap();
    // worker threads may be stuck forever: leave without joining
    let _ = locks::stop();
    std::process::exit(if deadlock { 3 } else { 0 });
}
