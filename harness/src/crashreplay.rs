//! C05 / C12: crash-point and write-back enumeration on the real code.
//!
//! A behaviour emitted by TLC from spec/RawDb.tla is executed on a real Database with the I/O tap recording
//! every mmap write, length change, sync and hole punch. From the event log the harness reconstructs, for every
//! crash point (after any event) and for a set of per-page write-back choices, the files a crash would leave,
//! materialises them in a fresh directory and opens them with the real `Database::open`.
//!
//! Crash model (as stated in C05): 4 KiB page writes are atomic; a dirty page may have reached the disk in any
//! version written since the file's last sync; file-length changes are durable in order; hole punches are immediate.
use std::collections::{BTreeMap, BTreeSet, HashMap};
use std::io::{BufRead, Write};
use std::os::unix::fs::FileExt;
use std::panic::{AssertUnwindSafe, catch_unwind};

use rawdb::verif::{self, IoEvent};
use rawdb::{Database, PAGE_SIZE};
use serde_json::{Value, json};

use crate::rawreplay::cell_bytes;
use crate::util::{Scratch, fnv, parse_flags};

type Page = Vec<u8>;

#[derive(Clone, Default)]
struct FileImg {
    len: usize,
    durable: HashMap<usize, Page>,
    volatile: HashMap<usize, Page>,
    /// versions written since the last sync, oldest first (the last one equals the volatile page)
    versions: BTreeMap<usize, Vec<Page>>,
}

impl FileImg {
    fn vpage(&self, p: usize) -> Page {
        self.volatile.get(&p).cloned().unwrap_or_else(|| vec![0; PAGE_SIZE])
    }
    fn write(&mut self, off: usize, bytes: &[u8]) {
        let mut pos = 0;
        while pos < bytes.len() {
            let abs = off + pos;
            let p = abs / PAGE_SIZE;
            let in_page = abs % PAGE_SIZE;
            let n = (PAGE_SIZE - in_page).min(bytes.len() - pos);
            let mut pg = self.vpage(p);
            pg[in_page..in_page + n].copy_from_slice(&bytes[pos..pos + n]);
            self.volatile.insert(p, pg.clone());
            self.versions.entry(p).or_default().push(pg);
            pos += n;
        }
    }
    fn sync(&mut self) {
        for (p, v) in std::mem::take(&mut self.versions) {
            self.durable.insert(p, v.last().unwrap().clone());
        }
    }
    fn punch(&mut self, off: usize, len: usize) {
        for p in off / PAGE_SIZE..(off + len) / PAGE_SIZE {
            self.durable.remove(&p);
            self.volatile.remove(&p);
            self.versions.remove(&p);
        }
    }
}

#[derive(Clone, Default)]
struct Images {
    data: FileImg,
    meta: FileImg,
}

fn apply(img: &mut Images, ev: &IoEvent) {
    match ev {
        IoEvent::WData { off, bytes } => img.data.write(*off, bytes),
        IoEvent::WMeta { off, bytes } => img.meta.write(*off, bytes),
        IoEvent::SetLen { meta, len } => {
            if *meta { img.meta.len = *len } else { img.data.len = *len }
        }
        IoEvent::FlushAsync { .. } => {}
        IoEvent::Sync { meta } => {
            if *meta { img.meta.sync() } else { img.data.sync() }
        }
        IoEvent::Punch { off, len } => img.data.punch(*off, *len),
    }
}

/// choice: for each dirty (file, page) the index of the version that reached the disk (None = the durable one)
fn materialise(img: &Images, choice: &HashMap<(bool, usize), usize>, dir: &std::path::Path) {
    for (is_meta, f, name) in [(false, &img.data, "data"), (true, &img.meta, "regions")] {
        let file = std::fs::OpenOptions::new().create(true).write(true).truncate(true).open(dir.join(name)).unwrap();
        file.set_len(f.len as u64).unwrap();
        let mut pages: HashMap<usize, &Page> = f.durable.iter().map(|(k, v)| (*k, v)).collect();
        for (p, vs) in &f.versions {
            if let Some(&i) = choice.get(&(is_meta, *p)) {
                pages.insert(*p, &vs[i]);
            }
        }
        for (p, pg) in pages {
            let off = p * PAGE_SIZE;
            if off >= f.len {
                continue;
            }
            let n = PAGE_SIZE.min(f.len - off);
            file.write_all_at(&pg[..n], off as u64).unwrap();
        }
    }
}

type Snap = BTreeMap<String, Vec<u8>>;

fn observe(db: &Database) -> Snap {
    let names: Vec<String> = db.regions().id_to_index().keys().cloned().collect();
    let mut out = BTreeMap::new();
    for nm in names {
        if let Some(r) = db.get_region(&nm) {
            out.insert(nm, r.create_reader().read_all().to_vec());
        }
    }
    out
}

struct OpInfo {
    lo: usize, // events[lo..hi] belong to this op
    hi: usize,
    op: String,
    arg0: String,
    snap: Snap,               // last completed flush before this op
    snap_extents: BTreeMap<String, (usize, usize)>, // name -> (start, len) at that flush
    touched: BTreeSet<String>, // names modified since that flush, including by this op
    at_start: Snap,           // contents when this op began
    dev: Vec<String>,
    flush_seen: bool,
    // the same three, as they stand once this op has returned
    snap_after: Snap,
    snap_extents_after: BTreeMap<String, (usize, usize)>,
    touched_after: BTreeSet<String>,
    flush_seen_after: bool,
}

#[derive(Default)]
struct Stats {
    behaviours: u64,
    crash_points: u64,
    images: u64,
    nontrivial: BTreeSet<u64>,
    violations: Vec<Value>,
    known: BTreeMap<String, (u64, Value)>,
    events: u64,
    io_kind_mismatch: u64,
    regime2_checked: u64,
    inside_compact: u64,
}

fn short(s: &Value) -> Value {
    let a: Vec<String> = s["args"].as_array().map(|a| a.iter().map(|x| x.to_string().replace('"', "")).collect()).unwrap_or_default();
    Value::String(format!("{}({})", s["op"].as_str().unwrap_or("?"), a.join(",")))
}

fn kind(ev: &IoEvent) -> &'static str {
    match ev {
        IoEvent::WData { .. } => "wdata",
        IoEvent::WMeta { .. } => "wmeta",
        IoEvent::SetLen { .. } => "setlen",
        IoEvent::FlushAsync { .. } => "flushasync",
        IoEvent::Sync { meta: false } => "syncdata",
        IoEvent::Sync { meta: true } => "syncmeta",
        IoEvent::Punch { .. } => "punch",
    }
}

/// did the events recorded since index `lo` contain a sync of the data file?
fn rflush_synced(lo: usize) -> bool {
    verif::io_tap_since(lo).iter().any(|e| matches!(e, IoEvent::Sync { meta: false }))
}

fn run_one(steps: &[Value], scale: usize, max_choices: usize, st: &mut Stats, bidx: usize, prop: &str) {
    let scratch = Scratch::new("crash");
    verif::io_tap_start();
    let db = Database::open(scratch.path()).expect("open");
    let mut ops: Vec<OpInfo> = vec![];
    let mut snap: Snap = BTreeMap::new();
    let mut snap_extents: BTreeMap<String, (usize, usize)> = BTreeMap::new();
    let mut touched: BTreeSet<String> = BTreeSet::new();
    let mut flush_seen = false;
    let mut ok = true;
    for step in steps {
        let op = step["op"].as_str().unwrap();
        let a = step["args"].as_array().cloned().unwrap_or_default();
        let name = |i: usize| a[i].as_str().unwrap().to_string();
        let num = |i: usize| a[i].as_i64().unwrap();
        let lo = verif::io_tap_len();
        let at_start = observe(&db);
        match op {
            "create" | "write" | "truncate" | "remove" | "rflush" => {
                touched.insert(name(0));
            }
            "rename" => {
                touched.insert(name(0));
                touched.insert(name(1));
            }
            _ => {}
        }
        let r = catch_unwind(AssertUnwindSafe(|| -> rawdb::Result<()> {
            match op {
                "create" => db.create_region_if_needed(&name(0)).map(|_| ()),
                "write" => {
                    let reg = db.get_region(&name(0)).expect("region");
                    let (at, sz, trunc, first) = (num(1), num(2) as usize, num(3) == 1, num(4) as u64);
                    let mut bytes = Vec::with_capacity(sz * scale);
                    for k in 0..sz {
                        bytes.extend(cell_bytes(first + k as u64, scale));
                    }
                    if at < 0 { reg.write(&bytes) } else if trunc { reg.truncate_write(at as usize * scale, &bytes) } else { reg.write_at(&bytes, at as usize * scale) }
                }
                "truncate" => db.get_region(&name(0)).expect("region").truncate(num(1) as usize * scale),
                "rename" => db.get_region(&name(0)).expect("region").rename(&name(1)),
                "remove" => db.remove_region(&name(0)),
                "flush" => db.flush().map(|_| ()),
                "rflush" => db.get_region(&name(0)).expect("region").flush().map(|_| ()),
                "compact" => db.compact(),
                other => panic!("op {other} not supported in crash replay"),
            }
        }));
        let hi = verif::io_tap_len();
        let dev: Vec<String> = step["dev"].as_array().map(|x| x.iter().map(|y| y.as_str().unwrap().to_string()).collect()).unwrap_or_default();
        ops.push(OpInfo { lo, hi, op: op.to_string(), arg0: a.first().and_then(|x| x.as_str()).unwrap_or("").to_string(), snap: snap.clone(), snap_extents: snap_extents.clone(), touched: touched.clone(), at_start, dev, flush_seen,
            snap_after: BTreeMap::new(), snap_extents_after: BTreeMap::new(), touched_after: BTreeSet::new(), flush_seen_after: false });
        match r {
            Ok(Ok(())) => {
                if op == "flush" || op == "compact" {
                    // only regions whose metadata was ever written are covered by a flush (C01: "ever held data or was renamed")
                    let persisted: BTreeSet<String> = step["persist"].as_array().map(|x| x.iter().map(|y| y.as_str().unwrap().to_string()).collect()).unwrap_or_default();
                    snap = observe(&db).into_iter().filter(|(k, _)| persisted.contains(k)).collect();
                    snap_extents = db.regions().index_to_region().iter().flatten().map(|r| { let m = r.meta(); (m.id().to_string(), (m.start(), m.len())) }).collect();
                    touched.clear();
                    flush_seen = true;
                }
            }
            Ok(Err(_)) => {}
            Err(_) => {
                ok = false;
                break;
            }
        }
        if op == "rflush" && matches!(r, Ok(Ok(()))) && flush_seen && verif::io_tap_len() > lo {
            // Region::flush syncs both FILES when it has something to flush: everything written so far is durable, as after a flush
            let synced = { let n = verif::io_tap_len(); n > lo };
            let persisted: BTreeSet<String> = step["persist"].as_array().map(|x| x.iter().map(|y| y.as_str().unwrap().to_string()).collect()).unwrap_or_default();
            if synced && rflush_synced(lo) {
                snap = observe(&db).into_iter().filter(|(k, _)| persisted.contains(k)).collect();
                snap_extents = db.regions().index_to_region().iter().flatten().map(|r| { let m = r.meta(); (m.id().to_string(), (m.start(), m.len())) }).collect();
                touched.clear();
            }
        }
        let last = ops.last_mut().unwrap();
        last.snap_after = snap.clone();
        last.snap_extents_after = snap_extents.clone();
        last.touched_after = touched.clone();
        last.flush_seen_after = flush_seen;
    }
    let events = verif::io_tap_stop();
    drop(db);
    st.behaviours += 1;
    st.events += events.len() as u64;
    if !ok {
        return;
    }
    // binding check: the model's I/O event kinds per step against the tap (informational; data writes may be split differently)
    for (k, step) in steps.iter().enumerate() {
        if k >= ops.len() {
            break;
        }
        let model: Vec<String> = step["io"].as_array().map(|x| x.iter().map(|e| e["k"].as_str().unwrap().to_string()).filter(|k| k != "wdata").collect()).unwrap_or_default();
        let real: Vec<String> = events[ops[k].lo..ops[k].hi].iter().map(|e| kind(e).to_string()).filter(|k| k != "wdata" && k != "flushasync").collect();
        // the real code only punches extents that still hold non-zero bytes: punches are compared as "some subset"
        let strip = |v: &Vec<String>| -> Vec<String> { v.iter().filter(|k| *k != "punch").cloned().collect() };
        let punches_ok = real.iter().filter(|k| *k == "punch").count() <= model.iter().filter(|k| *k == "punch").count();
        let tail_sync_ok = |v: &Vec<String>| -> Vec<String> { let mut v = v.clone(); if v.last().map(|s| s == "syncdata").unwrap_or(false) && step["op"] == "compact" { v.pop(); } v };
        if tail_sync_ok(&strip(&model)) != tail_sync_ok(&strip(&real)) || !punches_ok {
            st.io_kind_mismatch += 1;
            if std::env::var("VH_TRACE").is_ok() && st.io_kind_mismatch < 6 {
                eprintln!("io mismatch at step {k} {:?}: model {:?} real {:?} ; {:?}", short(step), model, real, steps.iter().map(short).collect::<Vec<_>>());
            }
        }
    }
    let has_flush = ops.iter().any(|o| o.flush_seen);
    if has_flush && steps.len() >= 3 {
        st.nontrivial.insert(fnv(&steps.iter().map(|s| short(s).to_string()).collect::<Vec<_>>().join(";")));
    }
    // enumerate crash points
    let mut img = Images::default();
    let opi = 0usize;
    let crash_dir = Scratch::new("crashimg");
    for e in 0..=events.len() {
        if e > 0 {
            apply(&mut img, &events[e - 1]);
        }
        // the op whose events contain this crash point: strictly inside it, or right after its last event
        let Some(k) = ops.iter().position(|o| o.lo < e && e <= o.hi) else { continue };
        let _ = opi;
        let info = &ops[k];
        let (snap, snap_ext, touched, completed_flush): (&Snap, &BTreeMap<String, (usize, usize)>, BTreeSet<String>, bool) = if e == info.hi {
            (&info.snap_after, &info.snap_extents_after, info.touched_after.clone(), info.flush_seen_after)
        } else {
            (&info.snap, &info.snap_extents, info.touched.clone(), info.flush_seen)
        };
        if !completed_flush {
            continue; // C05 speaks about crashes after a flush has returned
        }
        st.crash_points += 1;
        let in_compact = info.op == "compact" && e > info.lo && e < info.hi;
        if in_compact {
            st.inside_compact += 1;
        }
        // dirty pages and the choices
        let dirty: Vec<(bool, usize, usize)> = img.data.versions.iter().map(|(p, v)| (false, *p, v.len())).chain(img.meta.versions.iter().map(|(p, v)| (true, *p, v.len()))).collect();
        let mut choices: Vec<(String, HashMap<(bool, usize), usize>)> = vec![];
        choices.push(("none".into(), HashMap::new()));
        if !dirty.is_empty() {
            choices.push(("all-latest".into(), dirty.iter().map(|(m, p, n)| ((*m, *p), n - 1)).collect()));
            for (m, p, n) in &dirty {
                choices.push((format!("only {}:{}", if *m { "meta" } else { "data" }, p), [((*m, *p), n - 1)].into_iter().collect()));
                choices.push((format!("all-but {}:{}", if *m { "meta" } else { "data" }, p), dirty.iter().filter(|(m2, p2, _)| !(m2 == m && p2 == p)).map(|(m2, p2, n2)| ((*m2, *p2), n2 - 1)).collect()));
                for i in 0..n.saturating_sub(1) {
                    choices.push((format!("old-version {}:{}#{}", if *m { "meta" } else { "data" }, p, i), [((*m, *p), i)].into_iter().collect()));
                }
            }
            if dirty.len() <= 6 {
                for mask in 0u32..(1 << dirty.len()) {
                    choices.push((format!("subset {mask:b}"), dirty.iter().enumerate().filter(|(i, _)| mask & (1 << i) != 0).map(|(_, (m, p, n))| ((*m, *p), n - 1)).collect()));
                }
            }
            // metadata only / data only
            choices.push(("all-meta".into(), dirty.iter().filter(|d| d.0).map(|(m, p, n)| ((*m, *p), n - 1)).collect()));
            choices.push(("all-data".into(), dirty.iter().filter(|d| !d.0).map(|(m, p, n)| ((*m, *p), n - 1)).collect()));
        }
        // rotate so that a cap keeps variety across crash points
        let cap = max_choices.min(choices.len());
        let rot = (bidx + e) % choices.len().max(1);
        let picked: Vec<usize> = std::iter::once(0).chain((0..choices.len()).map(|i| (i + rot) % choices.len())).take(cap).collect();
        for ci in picked {
            let (cname, choice) = &choices[ci];
            let _ = std::fs::remove_file(crash_dir.path().join("data"));
            let _ = std::fs::remove_file(crash_dir.path().join("regions"));
            materialise(&img, choice, crash_dir.path());
            st.images += 1;
            let res = catch_unwind(AssertUnwindSafe(|| Database::open(crash_dir.path())));
            let mut problem: Option<String> = None;
            match res {
                Err(_) => problem = Some("Database::open panicked on the crash image".into()),
                Ok(Err(e)) => problem = Some(format!("Database::open failed on the crash image: {e:?}")),
                Ok(Ok(rdb)) => {
                    // extents disjoint and inside the file
                    let mut ext: Vec<(usize, usize, String)> = rdb.regions().index_to_region().iter().flatten().map(|r| { let m = r.meta(); (m.start(), m.reserved(), m.id().to_string()) }).collect();
                    ext.sort();
                    let flen = rdb.file_len();
                    for w in ext.windows(2) {
                        if w[0].0 + w[0].1 > w[1].0 {
                            problem = Some(format!("recovered regions overlap: {} [{},+{}) and {} at {}", w[0].2, w[0].0, w[0].1, w[1].2, w[1].0));
                        }
                    }
                    for x in &ext {
                        if x.0 + x.1 > flen {
                            problem = Some(format!("recovered region {} [{},+{}) beyond the file length {}", x.2, x.0, x.1, flen));
                        }
                    }
                    if problem.is_none() {
                        let rec = observe(&rdb);
                        for (nm, bytes) in snap.iter() {
                            if touched.contains(nm) {
                                continue;
                            }
                            match rec.get(nm) {
                                None => problem = Some(format!("untouched flushed region '{nm}' is missing after recovery")),
                                Some(b) if b != bytes => problem = Some(format!("untouched flushed region '{nm}' differs after recovery (len {} vs flushed {})", b.len(), bytes.len())),
                                _ => {}
                            }
                        }
                        // regime 2: nothing but the library's syncs wrote pages (choice "none"): old or new, never a mixture
                        if problem.is_none() && cname == "none" && (prop == "C05" || prop == "C12") {
                            st.regime2_checked += 1;
                            let in_db_flush = (info.op == "flush" || info.op == "compact") && e > info.lo && e < info.hi;
                            for (nm, bytes) in snap.iter() {
                                let in_flush = in_db_flush || (info.op == "rflush" && e > info.lo && e < info.hi);
                                let _ = &info.arg0;
                                // overwritten in place: some data write since the flush landed inside its flushed extent
                                let Some(&(s0, l0)) = snap_ext.get(nm) else { continue };
                                // (only writes issued after the flush whose snapshot is the reference count)
                                let snap_at = ops[..=k].iter().filter(|o| (o.op == "flush" || o.op == "compact" || o.op == "reopen") && o.hi <= e && (o.hi < info.hi || e == info.hi)).map(|o| o.hi).max().unwrap_or(0);
                                let in_place = events[snap_at.min(e)..e].iter().any(|ev| match ev {
                                    IoEvent::WData { off, bytes } => *off < s0 + l0 && off + bytes.len() > s0,
                                    _ => false,
                                }) && touched.contains(nm);
                                if in_place || !touched.contains(nm) {
                                    continue;
                                }
                                let got = rec.get(nm);
                                let old_ok = got == Some(bytes);
                                let new_ok = in_flush && got == info.at_start.get(nm);
                                // (a region created and never written has no slot on disk: it is absent after any reopen, RawDb.tla `persist`)
                                let gone_ok = in_flush && got.is_none() && info.at_start.get(nm).map(|b| b.is_empty()).unwrap_or(true);
                                if !(old_ok || new_ok || gone_ok) {
                                    problem = Some(format!("region '{nm}' recovered neither as flushed nor as at the start of the interrupted flush (library-syncs-only regime)"));
                                }
                            }
                        }
                    }
                    drop(rdb);
                }
            }
            if let Some(p) = problem {
                let hist = json!(steps.iter().map(short).collect::<Vec<_>>());
                let devs: BTreeSet<String> = ops[..=k].iter().flat_map(|o| o.dev.iter().cloned()).collect();
                if devs.contains("D15") {
                    let en = st.known.entry("D15".into()).or_insert((0, hist.clone()));
                    en.0 += 1;
                    if en.1.as_array().unwrap().len() > steps.len() {
                        en.1 = hist;
                    }
                } else {
                    st.violations.push(json!({"behaviour": bidx, "what": p, "crash_after_event": e, "event": if e > 0 { format!("{:?}", kind(&events[e - 1])) } else { "-".into() },
                        "in_op": info.op, "op_index": k, "writeback": cname, "steps": hist, "inside_compact": in_compact,
                        "events": events.iter().map(|x| kind(x)).collect::<Vec<_>>()}));
                    return;
                }
            }
        }
    }
}

pub fn main(args: &[String]) -> i32 {
    let f = parse_flags(args);
    let input = f.get("in").expect("--in");
    let scale: usize = f.get("scale").map(|s| s.parse().unwrap()).unwrap_or(2048);
    let max_choices: usize = f.get("max-choices").map(|s| s.parse().unwrap()).unwrap_or(12);
    let prop = f.get("prop").cloned().unwrap_or_else(|| "C05".into());
    let rd = std::io::BufReader::new(std::fs::File::open(input).expect("open input"));
    let mut st = Stats::default();
    for (i, l) in rd.lines().enumerate() {
        let l = l.unwrap();
        if l.trim().is_empty() {
            continue;
        }
        let v: Value = serde_json::from_str(&l).expect("json");
        run_one(v.as_array().unwrap(), scale, max_choices, &mut st, i, &prop);
        if st.violations.len() >= 5 {
            break;
        }
    }
    let out = json!({"behaviours": st.behaviours, "crash_points": st.crash_points, "images": st.images, "events": st.events,
        "distinct_nontrivial": st.nontrivial.len(), "io_kind_mismatch": st.io_kind_mismatch, "regime2_checked": st.regime2_checked,
        "crash_points_inside_compact": st.inside_compact,
        "known": st.known.iter().map(|(d, (c, h))| json!({"dev": d, "count": c, "history": h})).collect::<Vec<_>>(),
        "violations": st.violations});
    writeln!(std::io::stdout(), "{}", out).unwrap();
    if st.violations.is_empty() { 0 } else { 1 }
}
