//! C10: concurrent work on distinct regions under seeded, lock-granular schedules.
//!
//! Worker threads each own one region name and run a seeded sequence of create / append / positional write /
//! truncate / truncate-write / rename / remove+recreate / short-lived reader; a maintenance thread runs flush and
//! compact. Every lock request of a worker parks at the lock tap's gate; the controller releases one parked thread
//! at a time, chosen by a seeded generator, so each seed is a different interleaving at lock-acquisition
//! granularity. Oracles: after each of its own operations a worker compares its region (through a fresh reader)
//! with its private reference byte vector — what its operations produce in isolation; at quiescence the extent
//! invariants of C02 are evaluated on the real layout and every region is compared once more.
use std::collections::BTreeSet;
use std::io::Write;
use std::sync::Arc;
use std::sync::atomic::{AtomicBool, AtomicU64, Ordering};
use std::time::{Duration, Instant};

use rand::rngs::StdRng;
use rand::{Rng, SeedableRng};
use rawdb::verif::locks::{self, Phase};
use rawdb::{Database, PAGE_SIZE};
use serde_json::{Value, json};

use crate::util::{Scratch, parse_flags};

fn pattern(tid: usize, ctr: &mut u64, n: usize) -> Vec<u8> {
    (0..n).map(|j| { *ctr += 1; (((tid as u64 * 59 + *ctr * 7 + j as u64) % 251) + 1) as u8 }).collect()
}

struct WorkerResult {
    ops: u64,
    error: Option<String>,
    log: Vec<String>,
}

fn worker(db: Database, tid: usize, seed: u64, nops: usize, no_remove: bool, errflag: Arc<AtomicBool>) -> WorkerResult {
    locks::set_thread(tid as u32);
    let mut rng = StdRng::seed_from_u64(seed);
    let mut name = format!("t{tid}");
    let mut reference: Vec<u8> = vec![];
    let mut exists = false;
    let mut ctr = 0u64;
    let mut log = vec![];
    let mut ops = 0u64;
    let sizes = [1usize, 100, PAGE_SIZE - 1, PAGE_SIZE, PAGE_SIZE + 1, 3 * PAGE_SIZE, 10_000, 40_000];
    for _ in 0..nops {
        if errflag.load(Ordering::Relaxed) {
            break;
        }
        let choice = rng.random_range(0..100);
        let r: Result<(), String> = std::panic::catch_unwind(std::panic::AssertUnwindSafe(|| {
            if !exists {
                db.create_region_if_needed(&name).map_err(|e| format!("{e:?}"))?;
                exists = true;
                reference.clear();
                log.push(format!("create {name}"));
                return Ok(());
            }
            let reg = db.get_region(&name).ok_or_else(|| format!("own region {name} missing"))?;
            if choice < 40 {
                let n = sizes[rng.random_range(0..sizes.len())];
                let data = pattern(tid, &mut ctr, n);
                reg.write(&data).map_err(|e| format!("{e:?}"))?;
                reference.extend_from_slice(&data);
                log.push(format!("append {n}"));
            } else if choice < 55 {
                let at = if reference.is_empty() { 0 } else { rng.random_range(0..=reference.len()) };
                let n = sizes[rng.random_range(0..4)];
                let data = pattern(tid, &mut ctr, n);
                reg.write_at(&data, at).map_err(|e| format!("{e:?}"))?;
                if reference.len() < at + n { reference.resize(at + n, 0); }
                reference[at..at + n].copy_from_slice(&data);
                log.push(format!("write_at {at} {n}"));
            } else if choice < 65 {
                let to = if reference.is_empty() { 0 } else { rng.random_range(0..=reference.len()) };
                reg.truncate(to).map_err(|e| format!("{e:?}"))?;
                reference.truncate(to);
                log.push(format!("truncate {to}"));
            } else if choice < 75 {
                let at = if reference.is_empty() { 0 } else { rng.random_range(0..=reference.len()) };
                let n = sizes[rng.random_range(0..6)];
                let data = pattern(tid, &mut ctr, n);
                reg.truncate_write(at, &data).map_err(|e| format!("{e:?}"))?;
                reference.truncate(at);
                reference.extend_from_slice(&data);
                log.push(format!("truncate_write {at} {n}"));
            } else if choice < 83 {
                let new = if name.ends_with('b') { format!("t{tid}") } else { format!("t{tid}b") };
                reg.rename(&new).map_err(|e| format!("{e:?}"))?;
                log.push(format!("rename {name}->{new}"));
                name = new;
            } else if choice < 90 && !no_remove {
                drop(reg);
                db.remove_region(&name).map_err(|e| format!("{e:?}"))?;
                exists = false;
                log.push(format!("remove {name}"));
                return Ok(());
            } else {
                // short-lived reader: must show exactly the region's current bytes
                let rd = reg.create_reader();
                if rd.read_all() != reference.as_slice() {
                    return Err(format!("reader of {name} shows {} bytes that differ from what this thread wrote ({} bytes)", rd.len(), reference.len()));
                }
                log.push("reader".into());
            }
            // isolation oracle: the region holds exactly what this thread's operations produce
            let reg = db.get_region(&name).ok_or_else(|| format!("own region {name} missing"))?;
            let rd = reg.create_reader();
            if rd.read_all() != reference.as_slice() {
                let got = rd.read_all();
                let first = got.iter().zip(reference.iter()).position(|(a, b)| a != b);
                let ndiff = got.iter().zip(reference.iter()).filter(|(a, b)| a != b).count();
                let lastd = got.iter().zip(reference.iter()).rposition(|(a, b)| a != b);
                let zeros = got.iter().zip(reference.iter()).filter(|(a, b)| a != b && **a == 0).count();
                // the signature of a concurrent hole punch: same length, every differing byte reads zero (the punch may
                // land in the middle of the writer's copy, so the zeroed span need not be page aligned)
                let punched = got.len() == reference.len() && zeros == ndiff;
                return Err(format!("{}region {name}: length {} (expected {}), first differing byte at {:?}, last at {:?}, {} bytes differ of which {} read zero", if punched { "PUNCHED " } else { "" }, got.len(), reference.len(), first, lastd, ndiff, zeros));
            }
            Ok(())
        })).unwrap_or_else(|p| Err(format!("PANIC {}", p.downcast_ref::<String>().cloned().or_else(|| p.downcast_ref::<&str>().map(|s| s.to_string())).unwrap_or_default())));
        ops += 1;
        if let Err(e) = r {
            errflag.store(true, Ordering::SeqCst);
            locks::set_thread(0);
            return WorkerResult { ops, error: Some(e), log };
        }
    }
    locks::set_thread(0);
    WorkerResult { ops, error: None, log }
}

fn extent_check(db: &Database) -> Result<(), String> {
    let layout = db.layout();
    let mut ext: Vec<(usize, usize, String)> = vec![];
    for r in db.regions().index_to_region().iter().flatten() {
        let m = r.meta();
        if m.start() % PAGE_SIZE != 0 || m.reserved() % PAGE_SIZE != 0 || m.len() > m.reserved() {
            return Err(format!("region {} malformed: start {} len {} reserved {}", m.id(), m.start(), m.len(), m.reserved()));
        }
        if m.start() + m.reserved() > db.file_len() {
            return Err(format!("region {} [{},+{}) beyond the file length {}", m.id(), m.start(), m.reserved(), db.file_len()));
        }
        ext.push((m.start(), m.reserved(), format!("region {}", m.id())));
    }
    for (s, z) in layout.start_to_hole() { ext.push((*s, *z, "hole".into())); }
    for (s, z) in layout.pending_holes() { ext.push((*s, *z, "pending".into())); }
    for (s, z) in layout.start_to_reserved() { ext.push((*s, *z, "reserved".into())); }
    ext.sort();
    let mut prev_end = 0;
    let mut prev_kind = String::new();
    for (s, z, k) in ext {
        if s < prev_end { return Err(format!("{k} at {s} overlaps {prev_kind} ending at {prev_end}")); }
        if s > prev_end { return Err(format!("bytes [{prev_end},{s}) below the end of the allocated area belong to nothing")); }
        if k == "hole" && prev_kind == "hole" { return Err(format!("adjacent holes not merged at {s}")); }
        prev_end = s + z;
        prev_kind = k;
    }
    Ok(())
}

pub fn main(args: &[String]) -> i32 {
    let f = parse_flags(args);
    let seed0: u64 = f.get("seed").map(|s| s.parse().unwrap()).unwrap_or(1);
    let schedules: u64 = f.get("schedules").map(|s| s.parse().unwrap()).unwrap_or(50);
    let nthreads: usize = f.get("threads").map(|s| s.parse().unwrap()).unwrap_or(2);
    let nops: usize = f.get("ops").map(|s| s.parse().unwrap()).unwrap_or(12);
    let min_len: usize = f.get("min-len").map(|s| s.parse().unwrap()).unwrap_or(0);
    let no_compact = f.contains_key("no-compact");
    let no_remove = f.contains_key("no-remove");
    let mut known_d1 = 0u64;
    let mut known_d1_example: Option<Value> = None;
    let mut known_punched = 0u64;
    let mut known_example: Option<Value> = None;
    let mut violations: Vec<Value> = vec![];
    let mut total_ops = 0u64;
    let mut grants = 0u64;
    let mut distinct: BTreeSet<u64> = BTreeSet::new();
    let mut timeouts = 0u64;
    let mut timeout_dump: Option<Value> = None;
    for k in 0..schedules {
        let seed = seed0.wrapping_mul(1_000_003).wrapping_add(k);
        let scratch = Scratch::new("conc");
        let db = if min_len > 0 { Database::open_with_min_len(scratch.path(), min_len) } else { Database::open(scratch.path()) }.unwrap();
        let errflag = Arc::new(AtomicBool::new(false));
        let done = Arc::new(AtomicU64::new(0));
        locks::start(true);
        let mut hs = vec![];
        for t in 1..=nthreads {
            let (db, ef, dn) = (db.clone(), errflag.clone(), done.clone());
            hs.push(std::thread::spawn(move || { let r = worker(db, t, seed ^ (t as u64 * 7919), nops, no_remove, ef); dn.fetch_add(1, Ordering::SeqCst); r }));
        }
        // maintenance thread: flush / compact
        let mt = nthreads + 1;
        let (dbm, efm, dnm) = (db.clone(), errflag.clone(), done.clone());
        let maint = std::thread::spawn(move || {
            locks::set_thread(mt as u32);
            let mut rng = StdRng::seed_from_u64(seed ^ 0xABCDEF);
            let mut err = None;
            for _ in 0..(nops / 2).max(2) {
                if efm.load(Ordering::Relaxed) { break; }
                let r = if !no_compact && rng.random_range(0..3) == 0 { dbm.compact() } else { dbm.flush().map(|_| ()) };
                if let Err(e) = r { err = Some(format!("maintenance: {e:?}")); efm.store(true, Ordering::SeqCst); break; }
            }
            locks::set_thread(0);
            dnm.fetch_add(1, Ordering::SeqCst);
            err
        });
        // controller: one permit at a time to a seeded choice among the threads parked at the gate
        let mut rng = StdRng::seed_from_u64(seed ^ 0x5EED);
        let mut seen = 0usize;
        let mut parked: Vec<u32> = vec![];
        let mut sched_hash = seed;
        let t0 = Instant::now();
        let mut last = Instant::now();
        let mut timed_out = false;
        while done.load(Ordering::SeqCst) < (nthreads + 1) as u64 {
            let evs = locks::snapshot();
            while seen < evs.len() {
                let e = &evs[seen];
                seen += 1;
                if e.thread == 0 { continue; }
                match e.phase {
                    Phase::Req => parked.push(e.thread),
                    _ => {}
                }
                last = Instant::now();
            }
            if !parked.is_empty() {
                // release one (seeded); leaving the others parked makes the interleaving depend on the seed only
                let i = rng.random_range(0..parked.len());
                let t = parked.swap_remove(i);
                locks::grant(t, 1);
                grants += 1;
                sched_hash = sched_hash.wrapping_mul(31).wrapping_add(t as u64);
                last = Instant::now();
                // give the released thread a moment to reach its next request (or to block on a real lock)
                let w = Instant::now();
                while locks::log_len() == seen && w.elapsed() < Duration::from_micros(300) {
                    std::hint::spin_loop();
                }
            } else {
                std::thread::sleep(Duration::from_micros(50));
            }
            if last.elapsed() > Duration::from_secs(10) || t0.elapsed() > Duration::from_secs(60) {
                timed_out = true;
                break;
            }
        }
        if timed_out && timeout_dump.is_none() {
            // per thread: the locks it holds and what it is waiting for
            let evs = locks::snapshot();
            let mut st: std::collections::BTreeMap<u32, (Vec<String>, String)> = Default::default();
            for e in &evs {
                if e.thread == 0 { continue; }
                let ent = st.entry(e.thread).or_default();
                let nm = format!("{}{}@{:x}", e.class, if e.write { ":w" } else { ":r" }, e.inst & 0xffff);
                match e.phase {
                    Phase::Req => ent.1 = format!("waits {nm}"),
                    Phase::Got => { ent.0.push(nm); ent.1 = "runs".into(); }
                    Phase::Rel => { if let Some(p) = ent.0.iter().rposition(|h| h.split('@').nth(1) == nm.split('@').nth(1)) { ent.0.remove(p); } }
                }
            }
            timeout_dump = Some(json!({"seed": seed, "parked": parked, "threads": st.iter().map(|(t, (h, w))| json!({"thread": t, "holds": h, "state": w})).collect::<Vec<_>>()}));
        }
        let _ = locks::stop(); // releases anybody still parked
        if timed_out {
            timeouts += 1;
            // no verdict from time: count it, leave the threads behind
            continue;
        }
        let mut thread_logs = vec![];
        for (i, h) in hs.into_iter().enumerate() {
            let r = h.join().unwrap();
            total_ops += r.ops;
            if let Some(e) = &r.error {
                let v = json!({"seed": seed, "thread": i + 1, "what": e, "ops_of_thread": r.log, "min_len": min_len, "threads": nthreads, "ops": nops});
                if e.contains("RegionStillReferenced") {
                    // a transient handle taken by a concurrent flush / compact made remove() refuse, after it had
                    // already released the extent (known finding D1, concurrent form)
                    known_d1 += 1;
                    known_d1_example.get_or_insert(v);
                } else if e.starts_with("PUNCHED ") && !no_compact {
                    // compact() punched the reserve of a region while its owner was writing into it (known finding D35)
                    known_punched += 1;
                    known_example.get_or_insert(v);
                } else {
                    violations.push(v);
                }
            }
            thread_logs.push(r.log);
        }
        if let Some(e) = maint.join().unwrap() {
            violations.push(json!({"seed": seed, "thread": "maintenance", "what": e, "min_len": min_len, "threads": nthreads, "ops": nops}));
        }
        distinct.insert(sched_hash);
        if violations.is_empty() && !errflag.load(Ordering::SeqCst) {
            if let Err(e) = extent_check(&db) {
                violations.push(json!({"seed": seed, "what": format!("extent invariant at quiescence: {e}"), "logs": thread_logs, "min_len": min_len, "threads": nthreads, "ops": nops}));
            }
        }
        if !violations.is_empty() {
            break;
        }
    }
    let known_list: Vec<Value> = [("D35", known_punched, known_example), ("D1", known_d1, known_d1_example)].into_iter().filter(|k| k.1 > 0)
        .map(|(d, c, e)| json!({"dev": d, "count": c, "example": e})).collect();
    let out = json!({"schedules": schedules, "threads": nthreads, "ops_per_thread": nops, "operations": total_ops, "lock_grants": grants,
        "distinct_schedules": distinct.len(), "timeouts": timeouts, "timeout_example": timeout_dump, "min_len": min_len, "no_compact": no_compact, "no_remove": no_remove,
        "known": known_list,
        "violations": violations});
    writeln!(std::io::stdout(), "{}", out).unwrap();
    if violations.is_empty() { 0 } else { 1 }
}
