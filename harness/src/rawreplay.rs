//! Spec -> code for rawdb: replay behaviours emitted by TLC from spec/RawDb.tla on a real Database.
//! One model cell = `scale` bytes; with P cells per page, scale = 4096 / P is the exact scale at which the
//! real allocator must coincide with the model step by step (start / len / reserved / holes / pending).
//!
//! Verdict per step (same rule as vecreplay):
//!   property projection = outcome class + names + per-name length and bytes (C01) + extent invariants on the
//!   real layout (C02); equality with the as-is model additionally needs the allocator projection at exact scale.
use std::collections::{BTreeMap, BTreeSet, HashMap};
use std::io::{BufRead, Write};
use std::panic::{AssertUnwindSafe, catch_unwind};

use rawdb::{Database, PAGE_SIZE, Region};
use serde_json::{Value, json};

use crate::util::{Scratch, fnv, parse_flags};

pub fn pat(v: u64, j: usize) -> u8 {
    (((v * 37 + (j as u64) * 11) % 255) + 1) as u8
}
pub fn cell_bytes(v: u64, scale: usize) -> Vec<u8> {
    (0..scale).map(|j| if v == 0 { 0 } else { pat(v, j) }).collect()
}
fn decode_cell(b: &[u8]) -> i64 {
    if b.iter().all(|x| *x == 0) {
        return 0;
    }
    for v in 1..400u64 {
        if b.iter().enumerate().all(|(j, x)| *x == pat(v, j)) {
            return v as i64;
        }
    }
    -1
}

#[derive(Default)]
struct Stats {
    behaviours: u64,
    steps: u64,
    nontrivial: BTreeSet<u64>,
    known: BTreeMap<String, (u64, Value)>,
    cut_permitted: u64,
    violations: Vec<Value>,
    ops: BTreeMap<String, u64>,
    paths: BTreeMap<String, u64>,
    alloc_equal: u64,
    alloc_checked: u64,
    inv_checked: u64,
    reader_checks: u64,
}

fn short(s: &Value) -> Value {
    let op = s["op"].as_str().unwrap_or("?");
    let a: Vec<String> = s["args"].as_array().map(|a| a.iter().map(|x| x.to_string().replace('"', "")).collect()).unwrap_or_default();
    Value::String(format!("{}({})", op, a.join(",")))
}
fn hist_upto(steps: &[Value], si: usize) -> Value {
    json!(steps[..=si].iter().map(short).collect::<Vec<_>>())
}
fn note_known(st: &mut Stats, dev: &[String], steps: &[Value], si: usize) {
    for d in dev {
        let e = st.known.entry(d.clone()).or_insert((0, hist_upto(steps, si)));
        e.0 += 1;
        if e.1.as_array().map(|a| a.len()).unwrap_or(0) > si + 1 {
            e.1 = hist_upto(steps, si);
        }
    }
}

/// Real observation: name -> decoded cells (or raw problem description)
fn observe(db: &Database, scale: usize) -> (BTreeMap<String, Vec<i64>>, Option<String>) {
    let mut out = BTreeMap::new();
    let mut bad = None;
    let names: Vec<String> = db.regions().id_to_index().keys().cloned().collect();
    for nm in names {
        let Some(reg) = db.get_region(&nm) else { continue };
        let rd = reg.create_reader();
        let bytes = rd.read_all();
        if bytes.len() % scale != 0 && bad.is_none() {
            bad = Some(format!("region {nm}: length {} not a multiple of scale {scale}", bytes.len()));
        }
        let cells: Vec<i64> = bytes.chunks(scale).map(decode_cell).collect();
        out.insert(nm, cells);
    }
    (out, bad)
}

struct RealAlloc {
    regs: BTreeSet<(String, usize, usize, usize)>,
    holes: BTreeSet<(usize, usize)>,
    pend: BTreeSet<(usize, usize)>,
    reserved: BTreeSet<(usize, usize)>,
    file_len: usize,
}

fn real_alloc(db: &Database) -> RealAlloc {
    let layout = db.layout();
    let mut regs = BTreeSet::new();
    for r in db.regions().index_to_region().iter().flatten() {
        let m = r.meta();
        regs.insert((m.id().to_string(), m.start(), m.len(), m.reserved()));
    }
    RealAlloc {
        regs,
        holes: layout.start_to_hole().iter().map(|(a, b)| (*a, *b)).collect(),
        pend: layout.pending_holes().iter().map(|(a, b)| (*a, *b)).collect(),
        reserved: layout.start_to_reserved().iter().map(|(a, b)| (*a, *b)).collect(),
        file_len: db.file_len(),
    }
}

/// C02 evaluated on the real layout, in bytes.
fn extent_invariants(a: &RealAlloc, db: &Database) -> Result<(), String> {
    let mut ext: Vec<(usize, usize, String)> = vec![];
    for (id, start, len, res) in &a.regs {
        if start % PAGE_SIZE != 0 || res % PAGE_SIZE != 0 || *res < PAGE_SIZE {
            return Err(format!("region {id} not page aligned: start {start} reserved {res}"));
        }
        if len > res {
            return Err(format!("region {id}: len {len} > reserved {res}"));
        }
        if start + res > a.file_len {
            return Err(format!("region {id}: extent [{start},+{res}) beyond file length {}", a.file_len));
        }
        ext.push((*start, *res, format!("region {id}")));
    }
    for (s, z) in &a.holes {
        ext.push((*s, *z, "hole".into()));
    }
    for (s, z) in &a.pend {
        ext.push((*s, *z, "pending".into()));
    }
    for (s, z) in &a.reserved {
        ext.push((*s, *z, "reserved".into()));
    }
    ext.sort();
    let mut prev_end = 0usize;
    let mut prev_kind = String::new();
    for (s, z, k) in &ext {
        if s % PAGE_SIZE != 0 || z % PAGE_SIZE != 0 || *z == 0 {
            return Err(format!("{k} extent [{s},+{z}) not page aligned / empty"));
        }
        if *s < prev_end {
            return Err(format!("{k} at {s} overlaps {prev_kind} ending at {prev_end}"));
        }
        if *s > prev_end {
            return Err(format!("bytes [{prev_end},{s}) below the end of the allocated area belong to nothing"));
        }
        if k == "hole" && prev_kind == "hole" {
            return Err(format!("adjacent holes not merged at {s}"));
        }
        prev_end = s + z;
        prev_kind = k.clone();
    }
    // layout's region map agrees with the metadata
    let layout = db.layout();
    let lr: BTreeSet<(usize, String)> = layout.start_to_region().iter().map(|(s, r)| (*s, r.meta().id().to_string())).collect();
    let mr: BTreeSet<(usize, String)> = a.regs.iter().map(|(id, s, _, _)| (*s, id.clone())).collect();
    if lr != mr {
        return Err(format!("layout region map {:?} disagrees with metadata {:?}", lr, mr));
    }
    Ok(())
}

struct Cfg {
    scale: usize,
    p: usize,
    init_len: usize,
}

fn run_one(steps: &[Value], cfg: &Cfg, st: &mut Stats, bidx: usize) {
    let scratch = Scratch::new("raw");
    let open = |path: &std::path::Path| -> rawdb::Result<Database> {
        if cfg.init_len > 0 { Database::open_with_min_len(path, cfg.init_len * cfg.scale) } else { Database::open(path) }
    };
    let mut db = Some(open(scratch.path()).expect("open"));
    let mut held: HashMap<String, Region> = HashMap::new();
    let mut reader: Option<rawdb::Reader> = None;
    let exact = cfg.scale * cfg.p == PAGE_SIZE;
    let s = cfg.scale;
    let mut prev: Option<BTreeMap<String, Vec<i64>>> = Some(BTreeMap::new());
    let mut nontrivial = false;
    for (si, step) in steps.iter().enumerate() {
        let op = step["op"].as_str().unwrap();
        let a = step["args"].as_array().cloned().unwrap_or_default();
        *st.ops.entry(op.to_string()).or_default() += 1;
        if let Some(p) = step["path"].as_str() {
            if p != "-" {
                *st.paths.entry(p.to_string()).or_default() += 1;
                if p.starts_with("reloc") || p == "adjacent" {
                    nontrivial = true;
                }
            }
        }
        // off the exact scale the as-is model cannot predict placement-dependent behaviour after a known
        // deviation; those continuations are judged at the exact scale only
        if !exact && step["dev"].as_array().map(|d| !d.is_empty()).unwrap_or(false) {
            st.cut_permitted += 1;
            break;
        }
        st.steps += 1;
        let name = |i: usize| a[i].as_str().unwrap().to_string();
        let num = |i: usize| a[i].as_i64().unwrap();
        let d = db.as_ref().unwrap();
        let out = catch_unwind(AssertUnwindSafe(|| -> rawdb::Result<()> {
            match op {
                "create" => d.create_region_if_needed(&name(0)).map(|_| ()),
                "write" => {
                    let reg = d.get_region(&name(0)).expect("region exists");
                    let at = num(1);
                    let sz = num(2) as usize;
                    let trunc = num(3) == 1;
                    let first = num(4) as u64;
                    let mut bytes = Vec::with_capacity(sz * s);
                    for k in 0..sz {
                        bytes.extend(cell_bytes(first + k as u64, s));
                    }
                    if at < 0 {
                        reg.write(&bytes)
                    } else if trunc {
                        reg.truncate_write(at as usize * s, &bytes)
                    } else {
                        reg.write_at(&bytes, at as usize * s)
                    }
                }
                "truncate" => d.get_region(&name(0)).expect("region").truncate(num(1) as usize * s),
                "rename" => d.get_region(&name(0)).expect("region").rename(&name(1)),
                "remove" => d.remove_region(&name(0)),
                "hold" => {
                    held.insert(name(0), d.get_region(&name(0)).expect("region"));
                    Ok(())
                }
                "release" => {
                    // the handle may have been registered under an older name
                    let key = held.iter().find(|(_, r)| r.meta().id() == name(0)).map(|(k, _)| k.clone());
                    if let Some(k) = key {
                        held.remove(&k);
                    }
                    Ok(())
                }
                "reader_new" => {
                    reader = Some(d.get_region(&name(0)).expect("region").create_reader());
                    Ok(())
                }
                "reader_read" => Ok(()),
                "reader_drop" => {
                    reader = None;
                    Ok(())
                }
                "flush" => d.flush().map(|_| ()),
                "rflush" => d.get_region(&name(0)).expect("region").flush().map(|_| ()),
                "compact" => d.compact(),
                "reopen" => d.flush().map(|_| ()),
                other => panic!("unknown op {other}"),
            }
        }));
        let mut class = match &out {
            Ok(Ok(())) => "ok",
            Ok(Err(_)) => "err",
            Err(_) => "panic",
        };
        let mut errtxt = match &out {
            Ok(Err(e)) => format!("{e:?}"),
            _ => String::new(),
        };
        if op == "reopen" && class == "ok" {
            held.clear();
            reader = None;
            drop(db.take());
            match catch_unwind(AssertUnwindSafe(|| open(scratch.path()))) {
                Ok(Ok(ndb)) => db = Some(ndb),
                Ok(Err(e)) => {
                    class = "err";
                    errtxt = format!("reopen: {e:?}");
                }
                Err(_) => class = "panic",
            }
            nontrivial = true;
        }
        let dev: Vec<String> = step["dev"].as_array().map(|x| x.iter().map(|y| y.as_str().unwrap().to_string()).collect()).unwrap_or_default();
        let must = step["must"].as_str().unwrap_or("ok");
        let model_res = step["res"].as_str().unwrap_or("ok");
        if class == "panic" || db.is_none() {
            if !dev.is_empty() && model_res == class {
                note_known(st, &dev, steps, si);
            } else {
                st.violations.push(json!({"behaviour": bidx, "step": si, "op": op, "args": a, "what": format!("outcome {class} {errtxt}"),
                    "must": must, "dev": dev, "steps": hist_upto(steps, si)}));
            }
            break;
        }
        let d = db.as_ref().unwrap();
        let (obs, bad) = observe(d, s);
        let to_map = |v: &Value| -> BTreeMap<String, Vec<i64>> {
            v.as_object().map(|o| o.iter().map(|(k, x)| (k.clone(), x.as_array().map(|a| a.iter().map(|y| y.as_i64().unwrap()).collect()).unwrap_or_default())).collect()).unwrap_or_default()
        };
        let exp = to_map(&step["exp"]);
        let imp = to_map(&step["impl"]);
        let class_ok = match must {
            "ok" => class == "ok",
            "err" => class == "err",
            _ => true,
        };
        // C10: bytes seen through a live reader must be bytes its own region held since the reader was created
        let mut reader_bad: Option<String> = None;
        let mut reader_cells: Vec<i64> = vec![];
        if let Some(rd) = &reader {
            st.reader_checks += 1;
            reader_cells = rd.read_all().chunks(s).map(decode_cell).collect();
            let seen: Vec<Vec<i64>> = step["rseen"].as_array().map(|a| a.iter().map(|x| x.as_array().map(|y| y.iter().map(|z| z.as_i64().unwrap()).collect()).unwrap_or_default()).collect()).unwrap_or_default();
            for (k, c) in reader_cells.iter().enumerate() {
                if k < seen.len() && !seen[k].contains(c) {
                    reader_bad = Some(format!("reader byte block {k} holds value {c}, its region only ever held {:?} there since the reader was created", seen[k]));
                    break;
                }
            }
        }
        let model_rdr: Vec<i64> = step["rdr"].as_array().map(|a| a.iter().map(|x| x.as_i64().unwrap()).collect()).unwrap_or_default();
        let ra = real_alloc(d);
        st.inv_checked += 1;
        let inv = extent_invariants(&ra, d);
        let mut prop_ok = class_ok && bad.is_none() && obs == exp && inv.is_ok() && reader_bad.is_none();
        if class == "err" && prev.as_ref() != Some(&obs) {
            prop_ok = false; // C13: a refused call changes nothing
        }
        // as-is model equality (allocator projection only at exact scale)
        let mut alloc_same = true;
        if exact {
            st.alloc_checked += 1;
            let mregs: BTreeSet<(String, usize, usize, usize)> = step["alloc"]["regs"].as_array().unwrap().iter().map(|x| {
                (x[0].as_str().unwrap().to_string(), x[1].as_u64().unwrap() as usize * s, x[2].as_u64().unwrap() as usize * s, x[3].as_u64().unwrap() as usize * s)
            }).collect();
            let mholes: BTreeSet<(usize, usize)> = step["alloc"]["holes"].as_array().unwrap().iter().map(|x| (x[0].as_u64().unwrap() as usize * s, x[1].as_u64().unwrap() as usize * s)).collect();
            let mpend: BTreeSet<(usize, usize)> = step["pend"].as_array().unwrap().iter().map(|x| (x[0].as_u64().unwrap() as usize * s, x[1].as_u64().unwrap() as usize * s)).collect();
            let mresv: BTreeSet<(usize, usize)> = step["resv"].as_array().unwrap().iter().map(|x| (x[0].as_u64().unwrap() as usize * s, x[1].as_u64().unwrap() as usize * s)).collect();
            let mfile = step["alloc"]["fileLen"].as_u64().unwrap() as usize * s;
            alloc_same = mregs == ra.regs && mholes == ra.holes && mpend == ra.pend && mresv == ra.reserved && (mfile == ra.file_len || cfg.init_len > 0);
            if alloc_same {
                st.alloc_equal += 1;
            }
        }
        let impl_ok = class == model_res && obs == imp && alloc_same && (reader.is_none() || !exact || reader_cells == model_rdr);
        if prop_ok {
            if !impl_ok {
                st.cut_permitted += 1;
                break;
            }
        } else if impl_ok && !dev.is_empty() {
            note_known(st, &dev, steps, si);
        } else {
            st.violations.push(json!({"behaviour": bidx, "step": si, "op": op, "args": a,
                "what": format!("outcome {class} {errtxt}; {}{}{}", inv.err().map(|e| format!("extent invariant: {e}; ")).unwrap_or_default(), bad.unwrap_or_default(), reader_bad.unwrap_or_default()),
                "must": must, "expected": step["exp"], "model_impl": step["impl"], "model_res": model_res, "dev": dev,
                "observed": json!(obs), "model_alloc": step["alloc"], "model_pend": step["pend"],
                "real_alloc": json!({"regs": ra.regs, "holes": ra.holes, "pend": ra.pend, "reserved": ra.reserved, "file_len": ra.file_len}),
                "alloc_same": alloc_same, "path": step["path"], "steps": hist_upto(steps, si)}));
            break;
        }
        prev = Some(obs);
    }
    st.behaviours += 1;
    if nontrivial && steps.len() >= 3 {
        let key: String = steps.iter().map(|s| short(s).to_string()).collect::<Vec<_>>().join(";");
        st.nontrivial.insert(fnv(&key));
    }
    held.clear();
    drop(reader);
    drop(db);
}

pub fn main(args: &[String]) -> i32 {
    let f = parse_flags(args);
    let input = f.get("in").expect("--in");
    let scale: usize = f.get("scale").map(|s| s.parse().unwrap()).unwrap_or(2048);
    let p: usize = f.get("p").map(|s| s.parse().unwrap()).unwrap_or(2);
    let init_len: usize = f.get("init-len").map(|s| s.parse().unwrap()).unwrap_or(0);
    let cfg = Cfg { scale, p, init_len };
    let rd = std::io::BufReader::new(std::fs::File::open(input).expect("open input"));
    let mut st = Stats::default();
    for (i, l) in rd.lines().enumerate() {
        let l = l.unwrap();
        if l.trim().is_empty() {
            continue;
        }
        let v: Value = serde_json::from_str(&l).expect("json");
        run_one(v.as_array().unwrap(), &cfg, &mut st, i);
        if st.violations.len() >= 5 {
            break;
        }
    }
    let out = json!({
        "scale": scale, "p": p, "behaviours": st.behaviours, "steps": st.steps, "distinct_nontrivial": st.nontrivial.len(),
        "ops": st.ops, "paths": st.paths, "cut_permitted": st.cut_permitted,
        "known": st.known.iter().map(|(d, (c, h))| json!({"dev": d, "count": c, "history": h})).collect::<Vec<_>>(),
        "alloc_checked": st.alloc_checked, "alloc_equal": st.alloc_equal, "inv_checked": st.inv_checked, "reader_checks": st.reader_checks,
        "violations": st.violations,
    });
    writeln!(std::io::stdout(), "{}", out).unwrap();
    if st.violations.is_empty() { 0 } else { 1 }
}
