//! C09: replay of the writer / reader interleavings TLC enumerates for spec/VecConc.tla on a real stored vector.
//!
//! Model thread 0 is the writer (push a batch, write()); the others read through read-only clones (len followed by
//! an immediate read of everything below it, and folds whose closure parks at the gate once per model element).
//! A model element is a block of B real elements (B * PP = the real page), so page boundaries, the raw partial page
//! and the fast / re-encoding paths of the compressed write are the real ones. The data region is made large enough
//! beforehand for every write of the behaviour to fit (the model does not contain region growth).
use std::collections::BTreeSet;
use std::io::{BufRead, Write};
use std::sync::atomic::{AtomicBool, Ordering};
use std::sync::{Arc, Mutex};
use std::time::{Duration, Instant};

use rawdb::Database;
use rawdb::verif::locks::{self, Phase};
use serde_json::{Value, json};
use vecdb::{BytesVec, LZ4Vec, PcoVec, ReadableVec, ZeroCopyVec, ZstdVec};

use crate::util::{Scratch, fnv, parse_flags};
use crate::vecreplay::{Be32, Elem, VK};

struct Shared {
    results: Vec<Mutex<Vec<Value>>>,
    done: Vec<AtomicBool>,
}

fn label_of(class: &str, write: bool) -> String {
    if class == "op" || class == "yield" { return class.into(); }
    let c = if class.starts_with("meta") { "meta" } else if class.starts_with("pages") { "pages" } else { class };
    format!("{c}:{}", if write { "W" } else { "R" })
}

struct Ctl { parked: Vec<Option<String>>, seen: usize, nthreads: u32 }
impl Ctl {
    fn pump(&mut self) {
        if locks::log_len() == self.seen { return; }
        let evs = locks::snapshot();
        while self.seen < evs.len() {
            let e = &evs[self.seen];
            self.seen += 1;
            if e.thread == 0 || e.thread > self.nthreads { continue; }
            if e.phase == Phase::Req { self.parked[e.thread as usize] = Some(label_of(&e.class, e.write)); }
        }
    }
    fn wait_parked(&mut self, sh: &Shared, t: usize) -> Result<Option<String>, ()> {
        let t0 = Instant::now();
        loop {
            self.pump();
            if let Some(l) = &self.parked[t] { return Ok(Some(l.clone())); }
            if sh.done[t].load(Ordering::SeqCst) { self.pump(); if let Some(l) = &self.parked[t] { return Ok(Some(l.clone())); } return Ok(None); }
            if t0.elapsed() > Duration::from_secs(3) { return Err(()); }
            std::thread::yield_now();
        }
    }
}

fn panic_msg(p: Box<dyn std::any::Any + Send>) -> String {
    p.downcast_ref::<String>().cloned().or_else(|| p.downcast_ref::<&str>().map(|s| s.to_string())).unwrap_or_default()
}

/// block-level view of real elements starting at real index `from_real`: value x if the whole block is enc(x, 0..B), else -1
fn blocks<T: Elem>(vals: &[T], first_block: usize, b: usize) -> Vec<i64> {
    vals.chunks(b).enumerate().map(|(bi, ch)| {
        let x = (first_block + bi + 1) as u64;
        if ch.len() == b && ch.iter().enumerate().all(|(j, v)| v.bits() == T::enc(x, j as u64).bits()) { x as i64 } else { -1 }
    }).collect()
}

fn writer_thread<V: VK + Send + 'static>(mut v: V, tid: u32, ops: Vec<i64>, b: usize, sh: Arc<Shared>, gate: Arc<locks::RwLock<()>>) {
    locks::set_thread(tid);
    for batch in ops {
        drop(gate.write());
        let r = std::panic::catch_unwind(std::panic::AssertUnwindSafe(|| -> Result<(), String> {
            let stored_blocks = v.vlen() / b;
            for i in 0..batch as usize {
                for j in 0..b { v.push(<V::T as Elem>::enc((stored_blocks + i + 1) as u64, j as u64)); }
            }
            v.write().map_err(|e| format!("{e:?}"))?;
            Ok(())
        }));
        let val = match r { Ok(Ok(())) => json!({"kind": "none"}), Ok(Err(e)) => json!({"kind": "error", "what": e}), Err(p) => json!({"kind": "error", "what": format!("panic: {}", panic_msg(p))}) };
        sh.results[tid as usize].lock().unwrap().push(val);
    }
    locks::set_thread(0);
    sh.done[tid as usize].store(true, Ordering::SeqCst);
}

fn reader_thread<RO: ReadableVec<usize, T> + Send + 'static, T: Elem>(ro: RO, tid: u32, ops: Vec<(String, i64)>, b: usize, sh: Arc<Shared>, gate: Arc<locks::RwLock<()>>, ygate: Arc<locks::RwLock<()>>) {
    locks::set_thread(tid);
    let mut last_len = 0usize;
    for (op, arg) in ops {
        drop(gate.write());
        let r = std::panic::catch_unwind(std::panic::AssertUnwindSafe(|| -> Value {
            match op.as_str() {
                "len" => {
                    let l = ro.len();
                    // the property, at this very instant: everything below the observed length is there
                    let all = ro.fold_range_at(0, l, Vec::with_capacity(l), |mut a: Vec<T>, v: T| { a.push(v); a });
                    let bl = blocks(&all, 0, b);
                    let ok = l % b == 0 && all.len() == l && bl.iter().enumerate().all(|(i, x)| *x == i as i64 + 1);
                    let mono = l >= last_len;
                    last_len = l;
                    json!({"kind": "len", "len": l, "blocks": l / b, "aligned": l % b == 0, "readable": ok, "read": bl, "monotone": mono})
                }
                "fold" => {
                    let from = arg as usize * b;
                    let to = last_len;
                    let mut cnt = 0usize;
                    let all = ro.fold_range_at(from, to, Vec::with_capacity(to.saturating_sub(from)), |mut a: Vec<T>, v: T| {
                        a.push(v);
                        cnt += 1;
                        if cnt % b == 0 { drop(ygate.write()); } // one closure call of the model per block
                        a
                    });
                    json!({"kind": "fold", "from": arg, "to": to / b, "got": blocks(&all, arg as usize, b), "count": all.len()})
                }
                other => json!({"kind": "error", "what": format!("op {other}")}),
            }
        }));
        let val = match r { Ok(v) => v, Err(p) => json!({"kind": "error", "what": format!("panic: {}", panic_msg(p))}) };
        sh.results[tid as usize].lock().unwrap().push(val);
    }
    locks::set_thread(0);
    sh.done[tid as usize].store(true, Ordering::SeqCst);
}

struct Stats { behaviours: u64, steps: u64, ops_checked: u64, cut: u64, unbound: u64, unbound_example: Option<Value>, nontrivial: BTreeSet<u64>,
    violations: Vec<Value>, known: std::collections::BTreeMap<String, (u64, Value)>, segs: std::collections::BTreeMap<String, u64> }

fn run_all<V: VK + Send + 'static>(lines: &[String], prelen: usize, pp: usize, nreaders: u32) -> Stats
where V::RO: Send + 'static {
    let b = (16 * 1024 / <V::T as Elem>::SIZE) / pp;
    let nthreads = nreaders + 1;
    let mut st = Stats { behaviours: 0, steps: 0, ops_checked: 0, cut: 0, unbound: 0, unbound_example: None, nontrivial: BTreeSet::new(), violations: vec![],
        known: Default::default(), segs: Default::default() };
    for (bidx, l) in lines.iter().enumerate() {
        let steps: Vec<Value> = serde_json::from_str::<Value>(l).unwrap().as_array().unwrap().iter().map(|a| {
            let obs = if a[6].is_array() {
                if a[6][0] == "len" { json!({"kind": "len", "len": a[6][1], "readable": a[6][2]}) } else { json!({"kind": "fold", "len": a[6][1], "from": a[6][2], "got": a[6][3]}) }
            } else { json!({"kind": "none"}) };
            json!({"t": a[0].as_u64().unwrap() + 1, "lab": a[1], "nl": a[2], "op": a[3], "arg": a[4], "ends": a[5], "obs": obs, "dev": a[7]})
        }).collect();
        let short = |upto: usize| -> Value { json!(steps[..=upto].iter().map(|s| format!("{}:{}{}", s["t"].as_u64().unwrap() - 1, s["lab"].as_str().unwrap(), if s["lab"] == "op" { format!("[{} {}]", s["op"].as_str().unwrap(), s["arg"]) } else { String::new() })).collect::<Vec<_>>()) };
        // ---- set-up: a region large enough for everything, then the model's initial contents
        let total_blocks: usize = prelen + steps.iter().filter(|s| s["lab"] == "op" && s["op"] == "write").map(|s| s["arg"].as_u64().unwrap() as usize).sum::<usize>();
        let scratch = Scratch::new("vc");
        let db = Database::open(scratch.path()).unwrap();
        let mut v = V::open(&db, "v", 0, 1).unwrap();
        for i in 0..(4 * (total_blocks + 2) * b) { v.push(<V::T as Elem>::special(i as u64 + 40)); }
        v.write().unwrap();
        v.truncate(0).unwrap();
        v.write().unwrap();
        for i in 0..prelen { for j in 0..b { v.push(<V::T as Elem>::enc(i as u64 + 1, j as u64)); } }
        v.write().unwrap();
        let mut wops: Vec<i64> = vec![];
        let mut rops: Vec<Vec<(String, i64)>> = vec![vec![]; nthreads as usize + 1];
        for s in &steps {
            if s["lab"] == "op" {
                let t = s["t"].as_u64().unwrap() as usize;
                if t == 1 { wops.push(s["arg"].as_i64().unwrap()); } else { rops[t].push((s["op"].as_str().unwrap().to_string(), s["arg"].as_i64().unwrap())); }
            }
        }
        let sh = Arc::new(Shared { results: (0..=nthreads).map(|_| Mutex::new(vec![])).collect(), done: (0..=nthreads).map(|_| AtomicBool::new(false)).collect() });
        let ros: Vec<V::RO> = (0..nreaders).map(|_| v.ro()).collect();
        locks::start(true);
        let mut hs = vec![];
        let mk_gate = |class: &str| { let g = Arc::new(locks::RwLock::new(())); locks::register(&*g, class); g };
        {
            let (shc, g) = (sh.clone(), mk_gate("op"));
            if wops.is_empty() { sh.done[1].store(true, Ordering::SeqCst); drop(v); } else { hs.push(std::thread::spawn(move || writer_thread(v, 1, wops, b, shc, g))); }
        }
        for (i, ro) in ros.into_iter().enumerate() {
            let t = i as u32 + 2;
            let ops = rops[t as usize].clone();
            if ops.is_empty() { sh.done[t as usize].store(true, Ordering::SeqCst); continue; }
            let (shc, g, yg) = (sh.clone(), mk_gate("op"), mk_gate("yield"));
            hs.push(std::thread::spawn(move || reader_thread::<V::RO, V::T>(ro, t, ops, b, shc, g, yg)));
        }
        let mut ctl = Ctl { parked: vec![None; nthreads as usize + 1], seen: 0, nthreads };
        let mut ended: Vec<usize> = vec![0; nthreads as usize + 1];
        let (mut bound, mut why, mut last_si) = (true, String::new(), 0);
        for (si, s) in steps.iter().enumerate() {
            last_si = si;
            st.steps += 1;
            let t = s["t"].as_u64().unwrap() as usize;
            let (lab, nl) = (s["lab"].as_str().unwrap(), s["nl"].as_str().unwrap());
            match ctl.wait_parked(&sh, t) {
                Ok(Some(l)) if l == lab => {}
                other => { bound = false; why = format!("thread {} expected at {lab}, found {other:?}", t - 1); break; }
            }
            *st.segs.entry(format!("{lab}>{nl}")).or_insert(0) += 1;
            let thread_continues = steps[si + 1..].iter().any(|x| x["t"].as_u64().unwrap() as usize == t);
            loop {
                ctl.parked[t] = None;
                locks::grant(t as u32, 1);
                match ctl.wait_parked(&sh, t) {
                    Ok(Some(l)) => {
                        if l == nl { break; }
                        if l == "op" || l == "yield" { bound = false; why = format!("thread {} reached {l}, the model expects it at {nl}", t - 1); break; }
                    }
                    Ok(None) => { if nl != "op" || thread_continues { bound = false; why = format!("thread {} finished, the model expects it at {nl}", t - 1); } break; }
                    Err(()) => { bound = false; why = format!("thread {} neither finished nor asked for a lock after {lab}, expected next {nl}", t - 1); break; }
                }
            }
            if !bound { break; }
            if s["ends"].as_bool().unwrap() {
                let idx = ended[t];
                ended[t] += 1;
                let Some(got) = sh.results[t].lock().unwrap().get(idx).cloned() else { bound = false; why = format!("thread {}: no result for operation {idx}", t - 1); break; };
                st.ops_checked += 1;
                let tagged: Vec<String> = s["dev"].as_array().map(|a| a.iter().map(|x| x.as_str().unwrap().to_string()).collect()).unwrap_or_default();
                let obs = &s["obs"];
                let mut verdict: Option<(bool, String)> = None;
                let mut diverged = false;
                if got["kind"] == "error" {
                    verdict = Some((false, format!("{} of thread {} failed: {}", s["op"].as_str().unwrap(), t - 1, got["what"].as_str().unwrap())));
                } else if got["kind"] == "len" {
                    let real_ok = got["readable"].as_bool().unwrap() && got["monotone"].as_bool().unwrap();
                    let model_ok = obs["readable"].as_bool().unwrap();
                    if !real_ok {
                        verdict = Some((!model_ok && got["monotone"].as_bool().unwrap(), format!("a reader observed length {} ({} blocks) but reading [0, len) at that moment gave blocks {:?} (monotone: {})", got["len"], got["blocks"], got["read"], got["monotone"])));
                    } else if !model_ok || got["blocks"].as_i64() != obs["len"].as_i64() {
                        diverged = true;
                    }
                } else if got["kind"] == "fold" {
                    let real: Vec<i64> = got["got"].as_array().unwrap().iter().map(|x| x.as_i64().unwrap()).collect();
                    let (from, to) = (got["from"].as_i64().unwrap(), got["to"].as_i64().unwrap());
                    // the model's wrong values are abstract: any value other than the writer's is "garbage" (-1), as in the real view
                    // (a value below -1 is "x or garbage": bytes an in-place re-encoding may or may not have overwritten)
                    let raw_imp: Vec<i64> = obs["got"].as_array().unwrap().iter().map(|x| x.as_i64().unwrap()).collect();
                    let imp: Vec<i64> = raw_imp.iter().enumerate().map(|(i, &x)| {
                        let want = from + 1 + i as i64;
                        if x < -1 { let old = -x - 1; if real.get(i) == Some(&old) && old == want { old } else { -1 } } else if x == want { x } else { -1 }
                    }).collect();
                    let exp: Vec<i64> = (from + 1..=to).collect();
                    if real != exp {
                        verdict = Some((real == imp, format!("fold over [{from}, {to}) of blocks below an observed length yielded {:?} ({} elements)", real, got["count"])));
                    } else if imp != exp {
                        diverged = true;
                    }
                }
                if let Some((as_model, what)) = verdict {
                    if as_model && !tagged.is_empty() {
                        let e = st.known.entry(tagged.join("+")).or_insert((0, short(si)));
                        e.0 += 1;
                        if short(si).as_array().unwrap().len() < e.1.as_array().unwrap().len() { e.1 = short(si); }
                    } else {
                        st.violations.push(json!({"behaviour": bidx, "step": si, "what": what, "steps": short(si), "tagged": tagged}));
                    }
                    break;
                }
                if diverged { st.cut += 1; break; }
            }
        }
        let _ = locks::stop();
        if !bound {
            st.unbound += 1;
            if st.unbound_example.is_none() { st.unbound_example = Some(json!({"why": why, "steps": short(last_si)})); }
        }
        let t0 = Instant::now();
        for h in hs {
            while !h.is_finished() && t0.elapsed() < Duration::from_secs(5) { std::thread::sleep(Duration::from_millis(1)); }
            if h.is_finished() { let _ = h.join(); }
        }
        st.behaviours += 1;
        if steps.iter().map(|s| s["t"].as_u64().unwrap()).collect::<BTreeSet<_>>().len() >= 2 { st.nontrivial.insert(fnv(l)); }
        if !st.violations.is_empty() { break; }
    }
    st
}

pub fn main(args: &[String]) -> i32 {
    let f = parse_flags(args);
    let input = f.get("in").expect("--in");
    let format = f.get("format").map(|s| s.as_str()).unwrap_or("bytes");
    let prelen: usize = f.get("prelen").map(|s| s.parse().unwrap()).unwrap_or(0);
    let pp: usize = f.get("pp").map(|s| s.parse().unwrap()).unwrap_or(4);
    let readers: u32 = f.get("readers").map(|s| s.parse().unwrap()).unwrap_or(1);
    let lines: Vec<String> = std::io::BufReader::new(std::fs::File::open(input).expect("open input")).lines().map(|l| l.unwrap()).filter(|l| !l.trim().is_empty()).collect();
    let st = match format {
        "bytes" => run_all::<BytesVec<usize, u32>>(&lines, prelen, pp, readers),
        "bytes_be" => run_all::<BytesVec<usize, Be32>>(&lines, prelen, pp, readers),
        "zerocopy" => run_all::<ZeroCopyVec<usize, u32>>(&lines, prelen, pp, readers),
        "pco" => run_all::<PcoVec<usize, u32>>(&lines, prelen, pp, readers),
        "lz4" => run_all::<LZ4Vec<usize, u32>>(&lines, prelen, pp, readers),
        "zstd" => run_all::<ZstdVec<usize, u32>>(&lines, prelen, pp, readers),
        other => { eprintln!("unsupported format {other}"); return 2; }
    };
    let out = json!({"format": format, "behaviours": st.behaviours, "steps": st.steps, "operations_checked": st.ops_checked, "cut_permitted": st.cut,
        "unbound": st.unbound, "unbound_example": st.unbound_example, "distinct_nontrivial": st.nontrivial.len(), "segments": st.segs,
        "known": st.known.iter().map(|(d, (c, h))| json!({"dev": d, "count": c, "history": h})).collect::<Vec<_>>(), "violations": st.violations});
    writeln!(std::io::stdout(), "{}", out).unwrap();
    if st.violations.is_empty() { 0 } else { 1 }
}
