//! C10: replay of the interleavings TLC enumerates for spec/RawConc.tla on real threads.
//!
//! A behaviour is a sequence of steps `(thread, label)`: the thread, parked at the lock request `label`, is let
//! through the lock tap's gate and runs until it parks at the request the model names as its next label (requests
//! in between belong to the same critical section of the model and are let through at once). Only one thread runs
//! at a time, so the real execution is the model's interleaving. Operation boundaries are marked by a request on a
//! per-thread lock of class "op". At the end of each operation the owner's view of its region (or the bytes behind
//! its live reader) is compared with the model; whenever all threads are between operations the real layout is
//! compared with the model's and the extent invariants are evaluated.
use std::collections::BTreeSet;
use std::io::{BufRead, Write};
use std::sync::atomic::{AtomicBool, Ordering};
use std::sync::{Arc, Mutex};
use std::time::{Duration, Instant};

use rawdb::verif::locks::{self, Phase};
use rawdb::{Database, PAGE_SIZE, Reader, Region};
use serde_json::{Value, json};

use crate::util::{Scratch, fnv, parse_flags};

fn tokens(bytes: &[u8]) -> Vec<i64> {
    bytes.chunks(PAGE_SIZE).map(|p| if p.len() == PAGE_SIZE && p.iter().all(|b| *b == p[0]) { p[0] as i64 } else { 255 }).collect()
}

fn alloc_of(db: &Database, workers: &[u32]) -> Value {
    let pg = |x: usize| (x / PAGE_SIZE) as i64;
    let mut regs = vec![];
    for r in db.regions().index_to_region().iter().flatten() {
        let m = r.meta();
        let t: i64 = m.id().trim_start_matches('t').parse().unwrap_or(-1);
        if workers.contains(&(t as u32)) {
            regs.push(json!([t, pg(m.start()), pg(m.len()), pg(m.reserved())]));
        }
    }
    let l = db.layout();
    let set = |it: Vec<(usize, usize)>| -> Vec<Value> { let mut v: Vec<(i64, i64)> = it.into_iter().map(|(a, b)| (pg(a), pg(b))).collect(); v.sort(); v.into_iter().map(|(a, b)| json!([a, b])).collect() };
    regs.sort_by_key(|v| v[0].as_i64());
    json!({"regs": regs, "holes": set(l.start_to_hole().iter().map(|(a, b)| (*a, *b)).collect()),
           "pend": set(l.pending_holes().iter().map(|(a, b)| (*a, *b)).collect()),
           "resv": set(l.start_to_reserved().iter().map(|(a, b)| (*a, *b)).collect()), "fileLen": pg(db.file_len())})
}

fn norm_alloc(a: &Value) -> Value {
    let sortv = |v: &Value| -> Vec<Value> { let mut x: Vec<Vec<i64>> = v.as_array().map(|a| a.iter().map(|e| e.as_array().unwrap().iter().map(|n| n.as_i64().unwrap()).collect()).collect()).unwrap_or_default(); x.sort(); x.into_iter().map(|e| json!(e)).collect() };
    json!({"regs": sortv(&a["regs"]), "holes": sortv(&a["holes"]), "pend": sortv(&a["pend"]), "resv": sortv(&a["resv"]), "fileLen": a["fileLen"]})
}

fn extent_check(db: &Database) -> Result<(), String> {
    let layout = db.layout();
    let mut ext: Vec<(usize, usize, String)> = vec![];
    for r in db.regions().index_to_region().iter().flatten() {
        let m = r.meta();
        if m.start() % PAGE_SIZE != 0 || m.reserved() % PAGE_SIZE != 0 || m.len() > m.reserved() {
            return Err(format!("region {} malformed: start {} len {} reserved {}", m.id(), m.start(), m.len(), m.reserved()));
        }
        if m.start() + m.reserved() > db.file_len() {
            return Err(format!("region {} [{},+{}) beyond the file length {}", m.id(), m.start(), m.reserved(), db.file_len()));
        }
        ext.push((m.start(), m.reserved(), format!("region {}", m.id())));
    }
    for (s, z) in layout.start_to_hole() { ext.push((*s, *z, "hole".into())); }
    for (s, z) in layout.pending_holes() { ext.push((*s, *z, "pending".into())); }
    for (s, z) in layout.start_to_reserved() { ext.push((*s, *z, "reserved".into())); }
    ext.sort();
    let (mut prev_end, mut prev_kind) = (0, String::new());
    for (s, z, k) in ext {
        if s < prev_end { return Err(format!("{k} at {s} overlaps {prev_kind} ending at {prev_end}")); }
        if s > prev_end { return Err(format!("bytes [{prev_end},{s}) below the end of the allocated area belong to nothing")); }
        if k == "hole" && prev_kind == "hole" { return Err(format!("adjacent holes not merged at {s}")); }
        prev_end = s + z;
        prev_kind = k;
    }
    Ok(())
}

struct Shared {
    results: Vec<Mutex<Vec<Value>>>, // per thread: one entry per finished operation
    done: Vec<AtomicBool>,
}

fn run_thread(db: Database, t: u32, is_maint: bool, ops: Vec<(String, i64, i64)>, sh: Arc<Shared>, gate: Arc<locks::RwLock<()>>) {
    // handle taken before the thread becomes a gated one
    let mut reg: Option<Region> = if is_maint { None } else { db.get_region(&format!("t{t}")) };
    let mut reader: Option<Reader> = None;
    locks::set_thread(t);
    for (op, arg, k) in ops {
        drop(gate.write()); // operation boundary: parks at the gate with class "op"
        let r = std::panic::catch_unwind(std::panic::AssertUnwindSafe(|| -> Result<Value, String> {
            match op.as_str() {
                "create" => { reg = Some(db.create_region_if_needed(&format!("t{t}")).map_err(|e| format!("{e:?}"))?); }
                "append" => {
                    let tok = (t as i64 * 10 + k + 1) as u8;
                    reg.as_ref().unwrap().write(&vec![tok; arg as usize * PAGE_SIZE]).map_err(|e| format!("{e:?}"))?;
                }
                "truncate" => reg.as_ref().unwrap().truncate(arg as usize * PAGE_SIZE).map_err(|e| format!("{e:?}"))?,
                "reader_new" => { reader = Some(reg.as_ref().unwrap().create_reader()); return Ok(json!({"kind": "none"})); }
                "reader_read" => return Ok(json!({"kind": "reader", "got": tokens(reader.as_ref().unwrap().read_all())})),
                "reader_drop" => { reader = None; return Ok(json!({"kind": "none"})); }
                "flush" => { db.flush().map_err(|e| format!("{e:?}"))?; return Ok(json!({"kind": "none"})); }
                "compact" => { db.compact().map_err(|e| format!("{e:?}"))?; return Ok(json!({"kind": "none"})); }
                other => return Err(format!("op {other}")),
            }
            let rd = reg.as_ref().unwrap().create_reader();
            Ok(json!({"kind": "region", "got": tokens(rd.read_all()), "len": rd.len()}))
        }));
        let v = match r {
            Ok(Ok(v)) => v,
            Ok(Err(e)) => json!({"kind": "error", "what": e}),
            Err(p) => json!({"kind": "error", "what": format!("panic: {}", p.downcast_ref::<String>().cloned().or_else(|| p.downcast_ref::<&str>().map(|s| s.to_string())).unwrap_or_default())}),
        };
        sh.results[t as usize].lock().unwrap().push(v);
    }
    drop(reader);
    locks::set_thread(0);
    sh.done[t as usize].store(true, Ordering::SeqCst);
}

struct Ctl {
    /// per thread: the request it is parked at (not yet let through)
    parked: Vec<Option<String>>,
    seen: usize,
    nthreads: u32,
}
impl Ctl {
    fn pump(&mut self) {
        if locks::log_len() == self.seen { return; }
        let evs = locks::snapshot();
        while self.seen < evs.len() {
            let e = &evs[self.seen];
            self.seen += 1;
            if e.thread == 0 || e.thread > self.nthreads { continue; }
            if e.phase == Phase::Req { self.parked[e.thread as usize] = Some(label_of(&e.class, e.write)); }
        }
    }
    /// waits until thread t is parked at a request or has finished; Ok(None) = finished, Err = nothing happened in time
    fn wait_parked(&mut self, sh: &Shared, t: usize) -> Result<Option<String>, ()> {
        let t0 = Instant::now();
        loop {
            self.pump();
            if let Some(l) = &self.parked[t] { return Ok(Some(l.clone())); }
            if sh.done[t].load(Ordering::SeqCst) { self.pump(); if let Some(l) = &self.parked[t] { return Ok(Some(l.clone())); } return Ok(None); }
            if t0.elapsed() > Duration::from_secs(3) { return Err(()); }
            std::thread::yield_now();
        }
    }
}

fn label_of(class: &str, write: bool) -> String {
    if class == "op" { return "op".into(); }
    let c = if class.starts_with("meta") { "meta" } else { class };
    format!("{c}:{}", if write { "W" } else { "R" })
}

pub fn main(args: &[String]) -> i32 {
    let f = parse_flags(args);
    let input = f.get("in").expect("--in");
    let setup = f.get("setup").cloned().unwrap_or_else(|| "empty".into());
    let prelen: usize = f.get("prelen").map(|s| s.parse().unwrap()).unwrap_or(0);
    let initlen: usize = f.get("init-len").map(|s| s.parse().unwrap()).unwrap_or(1);
    let nthreads: u32 = f.get("threads").map(|s| s.parse().unwrap()).unwrap_or(3); // workers 1..n-1, maintenance n
    let maint = nthreads;
    let workers: Vec<u32> = (1..nthreads).collect();
    let rd = std::io::BufReader::new(std::fs::File::open(input).expect("open input"));
    let (mut behaviours, mut steps_n, mut ops_checked, mut alloc_checked, mut alloc_equal, mut cut, mut unbound) = (0u64, 0u64, 0u64, 0u64, 0u64, 0u64, 0u64);
    let mut unbound_example: Option<Value> = None;
    let mut alloc_example: Option<Value> = None;
    let mut nontrivial: BTreeSet<u64> = BTreeSet::new();
    let mut violations: Vec<Value> = vec![];
    let mut known: std::collections::BTreeMap<String, (u64, Value)> = Default::default();
    let mut label_pairs: std::collections::BTreeMap<String, u64> = Default::default();
    'outer: for (bidx, l) in rd.lines().enumerate() {
        let l = l.unwrap();
        if l.trim().is_empty() { continue; }
        let steps: Vec<Value> = serde_json::from_str::<Value>(&l).unwrap().as_array().unwrap().iter().map(|a| {
            let obs = if a[7].is_array() {
                if a[7][0] == "region" { json!({"kind": "region", "exp": a[7][1], "impl": a[7][2]}) } else { json!({"kind": "reader", "impl": a[7][1], "seen": a[7][2]}) }
            } else { json!({"kind": "none"}) };
            let alloc = if a[9].is_array() { json!({"regs": a[9][0], "holes": a[9][1], "pend": a[9][2], "resv": a[9][3], "fileLen": a[9][4]}) } else { Value::Null };
            json!({"t": a[0], "lab": a[1], "nl": a[2], "op": a[3], "k": a[4], "arg": a[5], "ends": a[6], "obs": obs, "quiet": a[8], "alloc": alloc, "dev": a[10]})
        }).collect();
        let short = |upto: usize| -> Value { json!(steps[..=upto].iter().map(|s| format!("{}:{}{}", s["t"], s["lab"].as_str().unwrap(), if s["lab"] == "op" { format!("[{} {}]", s["op"].as_str().unwrap(), s["arg"]) } else { String::new() })).collect::<Vec<_>>()) };
        // ---- set-up (sequential, ungated)
        let scratch = Scratch::new("cm");
        let db = if setup == "empty" { Database::open_with_min_len(scratch.path(), initlen * PAGE_SIZE).unwrap() } else { Database::open(scratch.path()).unwrap() };
        if setup != "empty" {
            if setup == "hole" { db.create_region_if_needed("x").unwrap(); }
            for t in &workers {
                let r = db.create_region_if_needed(&format!("t{t}")).unwrap();
                if prelen > 0 { r.write(&vec![(*t * 10) as u8; prelen * PAGE_SIZE]).unwrap(); }
            }
            if setup == "hole" { db.remove_region("x").unwrap(); }
            db.flush().unwrap();
        }
        // ---- per-thread operation lists
        let mut oplists: Vec<Vec<(String, i64, i64)>> = vec![vec![]; nthreads as usize + 1];
        for s in &steps {
            if s["lab"] == "op" {
                oplists[s["t"].as_u64().unwrap() as usize].push((s["op"].as_str().unwrap().to_string(), s["arg"].as_i64().unwrap(), s["k"].as_i64().unwrap()));
            }
        }
        let sh = Arc::new(Shared { results: (0..=nthreads).map(|_| Mutex::new(vec![])).collect(), done: (0..=nthreads).map(|_| AtomicBool::new(false)).collect() });
        locks::start(true);
        let mut hs = vec![];
        let mut gates = vec![];
        for t in 1..=nthreads {
            let gate = Arc::new(locks::RwLock::new(()));
            locks::register(&*gate, "op");
            gates.push(gate.clone());
            let (dbc, shc, ops) = (db.clone(), sh.clone(), oplists[t as usize].clone());
            if ops.is_empty() { sh.done[t as usize].store(true, Ordering::SeqCst); continue; }
            hs.push(std::thread::spawn(move || run_thread(dbc, t, t == maint, ops, shc, gate)));
        }
        // ---- controller
        let mut ctl = Ctl { parked: vec![None; nthreads as usize + 1], seen: 0, nthreads };
        let mut ended_ops: Vec<usize> = vec![0; nthreads as usize + 1];
        let mut bound = true;
        let mut why = String::new();
        let mut last_si = 0;
        for (si, s) in steps.iter().enumerate() {
            last_si = si;
            steps_n += 1;
            let t = s["t"].as_u64().unwrap() as usize;
            let lab = s["lab"].as_str().unwrap();
            let nl = s["nl"].as_str().unwrap();
            // the thread must be parked at `lab`
            match ctl.wait_parked(&sh, t) {
                Ok(Some(l)) if l == lab => {}
                other => { bound = false; why = format!("thread {t} expected at {lab}, found {other:?}"); break; }
            }
            *label_pairs.entry(format!("{}>{}", lab, nl)).or_insert(0) += 1;
            // let it through, and further while it asks for locks inside the same model segment
            let thread_continues = steps[si + 1..].iter().any(|x| x["t"].as_u64().unwrap() as usize == t);
            loop {
                ctl.parked[t] = None;
                locks::grant(t as u32, 1);
                match ctl.wait_parked(&sh, t) {
                    Ok(Some(l)) => {
                        if l == nl { break; }
                        // a nested request of the same segment; but never run past the end of the operation
                        if l == "op" { bound = false; why = format!("thread {t} reached the end of its operation, the model expects it at {nl}"); break; }
                    }
                    Ok(None) => {
                        if nl != "op" || thread_continues { bound = false; why = format!("thread {t} finished, the model expects it at {nl}"); }
                        break;
                    }
                    Err(()) => { bound = false; why = format!("thread {t} neither finished nor asked for a lock (blocked?) after {lab}, expected next {nl}"); break; }
                }
            }
            if !bound { break; }
            // ---- observations at the end of an operation
            if s["ends"].as_bool().unwrap() {
                let idx = ended_ops[t];
                ended_ops[t] += 1;
                let got = sh.results[t].lock().unwrap().get(idx).cloned();
                let Some(got) = got else { bound = false; why = format!("thread {t}: no result for its operation {idx}"); break; };
                ops_checked += 1;
                let tagged: Vec<String> = s["dev"].as_array().map(|a| a.iter().map(|x| x.as_str().unwrap().to_string()).collect()).unwrap_or_default();
                let obs = &s["obs"];
                let mut verdict: Option<(bool, String)> = None; // (matches the as-is model, what)
                if got["kind"] == "error" {
                    verdict = Some((false, format!("operation {} of thread {t} failed: {}", s["op"].as_str().unwrap(), got["what"].as_str().unwrap())));
                } else if obs["kind"] == "region" {
                    let exp: Vec<i64> = obs["exp"].as_array().unwrap().iter().map(|x| x.as_i64().unwrap()).collect();
                    let imp: Vec<i64> = obs["impl"].as_array().unwrap().iter().map(|x| x.as_i64().unwrap()).collect();
                    let real: Vec<i64> = got["got"].as_array().unwrap().iter().map(|x| x.as_i64().unwrap()).collect();
                    if real != exp {
                        verdict = Some((real == imp, format!("region t{t} after {} holds pages {:?}; in isolation its owner's operations produce {:?}", s["op"].as_str().unwrap(), real, exp)));
                    } else if imp != exp {
                        cut += 1; // the code is better than the as-is model here: states differ from now on
                        break;
                    }
                } else if obs["kind"] == "reader" {
                    let imp: Vec<i64> = obs["impl"].as_array().unwrap().iter().map(|x| x.as_i64().unwrap()).collect();
                    let real: Vec<i64> = got["got"].as_array().unwrap().iter().map(|x| x.as_i64().unwrap()).collect();
                    let seen_sets: Vec<Vec<i64>> = obs["seen"].as_array().unwrap().iter().map(|x| x.as_array().unwrap().iter().map(|y| y.as_i64().unwrap()).collect()).collect();
                    let own = real.len() == seen_sets.len() && real.iter().zip(seen_sets.iter()).all(|(v, s)| s.contains(v));
                    if !own {
                        verdict = Some((real == imp, format!("reader of t{t} yields pages {:?}; its region held {:?} at these offsets since the reader was created", real, seen_sets)));
                    } else if real != imp {
                        cut += 1;
                        break;
                    }
                }
                if let Some((as_model, what)) = verdict {
                    if as_model && !tagged.is_empty() {
                        let e = known.entry(tagged.join("+")).or_insert((0, short(si)));
                        e.0 += 1;
                        if short(si).as_array().unwrap().len() < e.1.as_array().unwrap().len() { e.1 = short(si); }
                        break;
                    }
                    violations.push(json!({"behaviour": bidx, "step": si, "what": what, "steps": short(si), "tagged": tagged}));
                    break;
                }
            }
            // ---- layout at quiescence
            if s["quiet"].as_bool().unwrap() {
                let tagged = s["dev"].as_array().map(|a| !a.is_empty()).unwrap_or(false);
                if let Err(e) = extent_check(&db) {
                    if !tagged {
                        violations.push(json!({"behaviour": bidx, "step": si, "what": format!("extent invariant at quiescence: {e}"), "steps": short(si)}));
                        break;
                    }
                }
                alloc_checked += 1;
                let real = alloc_of(&db, &workers);
                let model = norm_alloc(&s["alloc"]);
                if real == model { alloc_equal += 1; } else if alloc_example.is_none() { alloc_example = Some(json!({"steps": short(si), "real": real, "model": model})); }
            }
        }
        let _ = locks::stop(); // lets everybody run to the end
        if !bound {
            unbound += 1;
            if unbound_example.is_none() { unbound_example = Some(json!({"why": why, "steps": short(last_si)})); }
        }
        let t0 = Instant::now();
        for h in hs {
            while !h.is_finished() && t0.elapsed() < Duration::from_secs(5) { std::thread::sleep(Duration::from_millis(1)); }
            if h.is_finished() { let _ = h.join(); } // otherwise: leave it behind
        }
        behaviours += 1;
        if !violations.is_empty() { break 'outer; }
        if steps.iter().map(|s| s["t"].as_u64().unwrap()).collect::<BTreeSet<_>>().len() >= 2 {
            nontrivial.insert(fnv(&l));
        }
    }
    let out = json!({"behaviours": behaviours, "steps": steps_n, "operations_checked": ops_checked, "alloc_checked": alloc_checked, "alloc_equal": alloc_equal,
        "alloc_mismatch_example": alloc_example, "cut_permitted": cut, "unbound": unbound, "unbound_example": unbound_example, "distinct_nontrivial": nontrivial.len(),
        "segments": label_pairs,
        "known": known.iter().map(|(d, (c, h))| json!({"dev": d, "count": c, "history": h})).collect::<Vec<_>>(), "violations": violations});
    writeln!(std::io::stdout(), "{}", out).unwrap();
    if violations.is_empty() { 0 } else { 1 }
}
