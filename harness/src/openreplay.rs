//! C18: replay of open / clone / drop / background-task behaviours emitted by TLC from spec/OpenLock.tla.
//! Drops are executed on helper threads held at the `drop_checked` pause point (between the strong-count test and
//! the decrement), so the two halves of `Drop for Database` interleave exactly as in the model's behaviour.
use std::collections::BTreeSet;
use std::io::{BufRead, Write};
use std::panic::{AssertUnwindSafe, catch_unwind};
use std::sync::Arc;
use std::sync::atomic::{AtomicBool, Ordering};
use std::time::{Duration, Instant};

use rawdb::{Database, Error};
use serde_json::{Value, json};

use crate::util::{Scratch, fnv, parse_flags};

fn short(s: &Value) -> Value {
    let mut t = s["op"].as_str().unwrap_or("?").to_string();
    if s["op"] == "open" {
        t = format!("open({},{})={}", s["who"].as_str().unwrap_or(""), s["min_len"], s["res"].as_str().unwrap_or(""));
    }
    Value::String(t)
}

/// `vh openprobe <dir> <min_len>`: what another process sees
pub fn probe_main(args: &[String]) -> i32 {
    let dir = std::path::Path::new(&args[0]);
    let min_len: usize = args[1].parse().unwrap();
    let r = catch_unwind(AssertUnwindSafe(|| if min_len > 0 { Database::open_with_min_len(dir, min_len) } else { Database::open(dir) }));
    match r {
        Ok(Ok(_)) => println!("ok"),
        Ok(Err(Error::TryLock(_))) => println!("refused"),
        Ok(Err(e)) => println!("err:{e:?}"),
        Err(_) => println!("panic"),
    }
    0
}

fn file_sizes(dir: &std::path::Path) -> (u64, u64, u64) {
    let d = std::fs::metadata(dir.join("data")).map(|m| m.len()).unwrap_or(0);
    let r = std::fs::metadata(dir.join("regions")).map(|m| m.len()).unwrap_or(0);
    // a cheap content fingerprint of the first data page
    let head = std::fs::read(dir.join("data")).map(|b| fnv(&format!("{:?}", &b[..b.len().min(64)]))).unwrap_or(0);
    (d, r, head)
}

pub fn main(args: &[String]) -> i32 {
    let f = parse_flags(args);
    let input = f.get("in").expect("--in");
    let rd = std::io::BufReader::new(std::fs::File::open(input).expect("open input"));
    let exe = std::env::current_exe().unwrap();
    let mut behaviours = 0u64;
    let mut steps_n = 0u64;
    let mut probes = 0u64;
    let mut nontrivial: BTreeSet<u64> = BTreeSet::new();
    let mut violations: Vec<Value> = vec![];
    let mut known = 0u64;
    let mut known_hist: Option<Value> = None;
    'outer: for (bidx, l) in rd.lines().enumerate() {
        let l = l.unwrap();
        if l.trim().is_empty() {
            continue;
        }
        let steps: Vec<Value> = serde_json::from_str::<Value>(&l).unwrap().as_array().unwrap().clone();
        let scratch = Scratch::new("open");
        let dir = scratch.path().to_path_buf();
        let hist = |si: usize| json!(steps[..=si].iter().map(short).collect::<Vec<_>>());
        let mut handles: Vec<Database> = vec![];
        let mut droppers: Vec<std::thread::JoinHandle<()>> = vec![];
        let stop = Arc::new(AtomicBool::new(false));
        let running = Arc::new(AtomicBool::new(false));
        let mut version: u64 = 0;
        let mut flushed: u64 = 0;
        let mut model_alive = false;
        let mut model_bg_running = false;
        let mut two_step = false;
        rawdb::verif::pause_at("drop_checked");
        for (si, step) in steps.iter().enumerate() {
            steps_n += 1;
            let op = step["op"].as_str().unwrap();
            match op {
                "open" => {
                    let min_len = step["min_len"].as_u64().unwrap() as usize * (1 << 20);
                    let want = step["res"].as_str().unwrap();
                    let before = file_sizes(&dir);
                    let got: String = if step["who"] == "process" {
                        probes += 1;
                        let o = std::process::Command::new(&exe).args(["openprobe", dir.to_str().unwrap(), &min_len.to_string()]).output().unwrap();
                        String::from_utf8_lossy(&o.stdout).trim().to_string()
                    } else {
                        let d2 = dir.clone();
                        // another thread of this process
                        let r = std::thread::spawn(move || catch_unwind(AssertUnwindSafe(|| if min_len > 0 { Database::open_with_min_len(&d2, min_len) } else { Database::open(&d2) }))).join().unwrap();
                        match r {
                            Ok(Ok(db)) => {
                                // what the new holder sees: the flushed contents of region "r"
                                let seen = db.get_region("r").map(|r| r.create_reader().read_all().to_vec());
                                let want_bytes = if flushed > 0 { Some(vec![flushed as u8; 100 * flushed as usize]) } else { None };
                                if seen != want_bytes && !(flushed == 0 && seen.as_ref().map(|s| s.is_empty()).unwrap_or(true)) {
                                    violations.push(json!({"behaviour": bidx, "step": si, "what": format!("a new holder does not see the data flushed by the previous one: version {flushed}, region r has {:?} bytes", seen.map(|s| s.len())), "steps": hist(si)}));
                                    break 'outer;
                                }
                                version = flushed;
                                handles.push(db);
                                "ok".into()
                            }
                            Ok(Err(Error::TryLock(_))) => "refused".into(),
                            Ok(Err(e)) => format!("err:{e:?}"),
                            Err(_) => "panic".into(),
                        }
                    };
                    let after = file_sizes(&dir);
                    if got != want {
                        // the model is the code as it is: a different outcome while a known deviation is in play is the known finding
                        if two_step && model_bg_running {
                            known += 1;
                            known_hist.get_or_insert(hist(si));
                            break;
                        }
                        violations.push(json!({"behaviour": bidx, "step": si, "what": format!("open by another {} returned {got}, the specification says {want}", step["who"].as_str().unwrap()), "steps": hist(si)}));
                        break 'outer;
                    }
                    if got == "refused" && before != after {
                        violations.push(json!({"behaviour": bidx, "step": si, "what": format!("a refused open changed the files: (data len, regions len, head) {:?} -> {:?}", before, after), "steps": hist(si)}));
                        break 'outer;
                    }
                    if got == "ok" {
                        model_alive = true;
                    }
                }
                "clone" => handles.push(handles[0].clone()),
                "write_flush" => {
                    version += 1;
                    let db = &handles[0];
                    let r = db.create_region_if_needed("r").unwrap();
                    r.truncate_write(0, &vec![version as u8; 100 * version as usize]).unwrap();
                    drop(r);
                    db.flush().unwrap();
                    flushed = version;
                }
                "run_bg" => {
                    let (st, rn) = (stop.clone(), running.clone());
                    rn.store(true, Ordering::SeqCst);
                    handles[0].run_bg(move |_db| {
                        while !st.load(Ordering::SeqCst) {
                            std::thread::sleep(Duration::from_micros(200));
                        }
                        rn.store(false, Ordering::SeqCst);
                        Ok(())
                    });
                    model_bg_running = true;
                }
                "bg_end" => {
                    stop.store(true, Ordering::SeqCst);
                    let t0 = Instant::now();
                    while running.load(Ordering::SeqCst) && t0.elapsed() < Duration::from_secs(5) {
                        std::thread::sleep(Duration::from_micros(200));
                    }
                    model_bg_running = false;
                }
                "drop_check" => {
                    two_step = true;
                    if step["joined"].as_bool().unwrap_or(false) {
                        // the last handle joins the task: let the task end, as the join would wait for it
                        stop.store(true, Ordering::SeqCst);
                        model_bg_running = false;
                    }
                    let h = handles.pop().unwrap();
                    let arrived = rawdb::verif::pause_arrived();
                    droppers.push(std::thread::spawn(move || { rawdb::verif::pause_this_thread(true); drop(h) }));
                    let t0 = Instant::now();
                    while rawdb::verif::pause_arrived() == arrived && t0.elapsed() < Duration::from_secs(10) {
                        std::thread::sleep(Duration::from_micros(100));
                    }
                }
                "drop_dec" => {
                    rawdb::verif::pause_release(1);
                    // releases are served in arrival order; wait for one dropper to finish
                    let t0 = Instant::now();
                    loop {
                        if let Some(i) = droppers.iter().position(|d| d.is_finished()) {
                            droppers.remove(i).join().unwrap();
                            break;
                        }
                        if t0.elapsed() > Duration::from_secs(10) {
                            break;
                        }
                        std::thread::sleep(Duration::from_micros(100));
                    }
                    if handles.is_empty() && droppers.is_empty() {
                        model_alive = false;
                    }
                }
                "drop" => {
                    let h = handles.pop().unwrap();
                    rawdb::verif::pause_at("");
                    drop(h);
                    rawdb::verif::pause_at("drop_checked");
                    if handles.is_empty() {
                        model_alive = false;
                        model_bg_running = false;
                    }
                }
                other => panic!("op {other}"),
            }
            // C18: once every handle is gone nobody of the old instance may still be using the directory
            if !model_alive && running.load(Ordering::SeqCst) && handles.is_empty() && droppers.is_empty() {
                if two_step {
                    known += 1;
                    known_hist.get_or_insert(hist(si));
                } else {
                    violations.push(json!({"behaviour": bidx, "step": si, "what": "the directory is released while a background task of the previous holder is still running", "steps": hist(si)}));
                    break 'outer;
                }
            }
        }
        // cleanup: let everything go
        stop.store(true, Ordering::SeqCst);
        rawdb::verif::pause_at("");
        for d in droppers {
            let _ = d.join();
        }
        drop(handles);
        let t0 = Instant::now();
        while running.load(Ordering::SeqCst) && t0.elapsed() < Duration::from_secs(2) {
            std::thread::sleep(Duration::from_micros(200));
        }
        behaviours += 1;
        if steps.iter().filter(|s| s["op"] == "open").count() >= 2 {
            nontrivial.insert(fnv(&steps.iter().map(|s| short(s).to_string()).collect::<Vec<_>>().join(";")));
        }
    }
    let out = json!({"behaviours": behaviours, "steps": steps_n, "child_process_opens": probes, "distinct_nontrivial": nontrivial.len(),
        "known": if known > 0 { json!([{"dev": "D20", "count": known, "history": known_hist}]) } else { json!([]) }, "violations": violations});
    writeln!(std::io::stdout(), "{}", out).unwrap();
    if violations.is_empty() { 0 } else { 1 }
}
