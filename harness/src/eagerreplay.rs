//! C06 / C19 (eager): replay of EagerVec compute histories against the real code.
//!
//! Property: after any history of source appends, truncate+regrow (caller's `max_from` no greater than the
//! first changed source index), repeated calls, writes, re-imports and arbitrary internal batch sizes, the
//! stored result equals the same method evaluated from scratch (ORACLE A: fresh EagerVec, max_from 0, one
//! batch) and, where an obvious closed form exists, that closed form (ORACLE B). Version bookkeeping: a source
//! version bump forces recomputation from 0, an unchanged version re-evaluates nothing below
//! min(max_from, stored length), the recorded computed version survives re-import.
//!
//! See EAGER_NOTES.md for the element types, exactness arguments and the list of skipped methods.
use std::collections::BTreeSet;
use std::io::{BufRead, Write};
use std::ops::{Add, AddAssign};
use std::panic::{AssertUnwindSafe, catch_unwind};
use std::path::PathBuf;
use std::sync::{Arc, Mutex};
use std::time::{Duration, Instant};

use serde_json::{Value, json};
use vecdb::{
    AnyStoredVec, AnyVec, BinaryTransform, BytesVec, CheckedSub, Database, EagerVec, Exit, ImportableVec, Pco, PcoVec,
    PcoVecValue, PrintableIndex, ReadableVec, StoredVec, Version,
};

use crate::util::{Scratch, fnv, parse_flags};

const GIB: usize = 1024 * 1024 * 1024;

// ---------------------------------------------------------------------------------------------
// index / value newtype: usize is not storable in a PcoVec, and window-start vectors hold V::I values
// ---------------------------------------------------------------------------------------------
#[derive(Debug, Default, Clone, Copy, PartialEq, Eq, PartialOrd, Ord, Hash, Pco)]
#[repr(transparent)]
pub struct Ix(u64);
impl From<usize> for Ix {
    fn from(v: usize) -> Self {
        Ix(v as u64)
    }
}
impl From<Ix> for usize {
    fn from(v: Ix) -> usize {
        v.0 as usize
    }
}
impl Add<usize> for Ix {
    type Output = Ix;
    fn add(self, r: usize) -> Ix {
        Ix(self.0 + r as u64)
    }
}
impl AddAssign for Ix {
    fn add_assign(&mut self, r: Ix) {
        self.0 += r.0
    }
}
impl CheckedSub for Ix {
    fn checked_sub(self, r: Ix) -> Option<Ix> {
        self.0.checked_sub(r.0).map(Ix)
    }
}
impl PrintableIndex for Ix {
    fn to_string() -> &'static str {
        "ix"
    }
    fn to_possible_strings() -> &'static [&'static str] {
        &["ix"]
    }
}

/// every stored element is compared through its bit pattern (NaN == NaN when produced by the same operation)
trait Cell: PcoVecValue {
    fn bits(&self) -> u64;
}
impl Cell for u64 {
    fn bits(&self) -> u64 {
        *self
    }
}
impl Cell for i64 {
    fn bits(&self) -> u64 {
        *self as u64
    }
}
impl Cell for u16 {
    fn bits(&self) -> u64 {
        *self as u64
    }
}
impl Cell for Ix {
    fn bits(&self) -> u64 {
        self.0
    }
}
impl Cell for f32 {
    fn bits(&self) -> u64 {
        self.to_bits() as u64
    }
}
impl Cell for f64 {
    fn bits(&self) -> u64 {
        self.to_bits()
    }
}

fn show(kind: char, bits: &[u64]) -> Value {
    let fl = |x: f64| if x.is_finite() { json!(x) } else { json!(format!("{x}")) };
    Value::Array(
        bits.iter()
            .map(|b| match kind {
                'I' => json!(*b as i64),
                'F' => fl(f32::from_bits(*b as u32) as f64),
                'D' => fl(f64::from_bits(*b)),
                _ => json!(*b),
            })
            .collect(),
    )
}

// ---------------------------------------------------------------------------------------------
// storage format families
// ---------------------------------------------------------------------------------------------
pub trait Fam: 'static {
    type V<T: PcoVecValue>: StoredVec<I = Ix, T = T>;
}
pub struct FB;
pub struct FP;
impl Fam for FB {
    type V<T: PcoVecValue> = BytesVec<Ix, T>;
}
impl Fam for FP {
    type V<T: PcoVecValue> = PcoVec<Ix, T>;
}

// ---------------------------------------------------------------------------------------------
// model: every source is a prefix-stable function of the list of base values
// ---------------------------------------------------------------------------------------------
fn lagk(k: usize) -> usize {
    [0, 1, 2, 1][k.min(3)]
}

struct Model {
    base: Vec<u64>,
    w: usize,
    lag: usize,
    /// per `u` source: offset added to its values (a version change of that source alone comes with new contents of that source alone)
    off: Vec<u64>,
}
impl Model {
    fn n(&self) -> usize {
        self.base.len()
    }
    fn len_k(&self, k: usize) -> usize {
        self.n().saturating_sub(self.lag * lagk(k))
    }
    fn fu(k: usize, v: u64) -> u64 {
        match k {
            0 => v,
            1 => 2 * v + 1,
            _ => v + 7,
        }
    }
    fn u(&self, k: usize) -> Vec<u64> {
        let o = self.off.get(k).copied().unwrap_or(0);
        self.base[..self.len_k(k)].iter().map(|&v| Self::fu(k, v) + o).collect()
    }
    fn h(&self, k: usize) -> Vec<u16> {
        self.base[..self.len_k(k)]
            .iter()
            .map(|&v| {
                if k < 3 {
                    (Self::fu(k, v) % 60000) as u16
                } else {
                    // denominators: powers of two (exact division) and an occasional zero
                    let r = v % 6;
                    if r == 5 { 0 } else { 1u16 << r }
                }
            })
            .collect()
    }
    fn f(&self, k: usize) -> Vec<f32> {
        self.base[..self.len_k(k)]
            .iter()
            .map(|&v| match k {
                0 => v as f32,
                1 => (2 * v + 1) as f32 * 0.5,
                _ => (1u32 << (v % 3)) as f32,
            })
            .collect()
    }
    fn d(&self, k: usize) -> Vec<f64> {
        self.base[..self.len_k(k)].iter().map(|&v| if k == 0 { v as f64 } else { (v + 7) as f64 * 0.25 }).collect()
    }
    fn st(&self) -> Vec<Ix> {
        (0..self.n()).map(|i| Ix::from(i.saturating_sub(self.w))).collect()
    }
    fn cn(&self) -> Vec<u16> {
        self.base.iter().map(|&v| (v % 3) as u16).collect()
    }
    fn fi(&self) -> Vec<Ix> {
        let mut acc = 0u64;
        self.base
            .iter()
            .map(|&v| {
                let r = Ix(acc);
                acc += v % 3;
                r
            })
            .collect()
    }
    fn inn(&self) -> Vec<u64> {
        let mut r = vec![];
        for &v in &self.base {
            for j in 0..(v % 3) {
                r.push(v * 10 + j + 1);
            }
        }
        r
    }
    /// monotone "t -> i" mapping for compute_first_per_index (steps 0/1/2: duplicates and gaps)
    fn fp(&self) -> Vec<Ix> {
        let mut acc = 0u64;
        self.base
            .iter()
            .enumerate()
            .map(|(t, &v)| {
                if t > 0 {
                    acc += v % 3;
                }
                Ix(acc)
            })
            .collect()
    }
}

// ---------------------------------------------------------------------------------------------
// method registry
// ---------------------------------------------------------------------------------------------
struct Spec {
    name: &'static str,
    /// output element type: U u64, I i64, X Ix, F f32, D f64
    kind: char,
    /// sources used: (group, k); groups u h f d (value sources), s starts, g first_indexes+counts+inner, p first-per-index mapping
    used: &'static [(char, usize)],
    /// closed form (ORACLE B) available
    closed: bool,
}

macro_rules! sp {
    ($n:expr, $k:expr, $u:expr, $c:expr) => {
        Spec { name: $n, kind: $k, used: $u, closed: $c }
    };
}

const SPECS: &[Spec] = &[
    // transforms.rs
    sp!("to", 'U', &[('u', 0)], true),
    sp!("range", 'U', &[('u', 0)], true),
    sp!("from_index", 'X', &[('u', 0)], true),
    sp!("transform", 'U', &[('u', 0)], true),
    sp!("transform2", 'U', &[('u', 0), ('u', 1)], true),
    sp!("binary", 'U', &[('u', 0), ('u', 1)], true),
    sp!("transform3", 'U', &[('u', 0), ('u', 1), ('u', 2)], true),
    sp!("transform4", 'U', &[('u', 0), ('u', 1), ('u', 2), ('h', 0)], true),
    sp!("indirect_sequential", 'U', &[('s', 0), ('u', 0)], true),
    sp!("first_per_index", 'X', &[('p', 0)], true),
    // arithmetic.rs
    sp!("add", 'U', &[('u', 0), ('u', 1)], true),
    sp!("subtract", 'U', &[('u', 0), ('u', 1)], true),
    sp!("multiply", 'U', &[('u', 0), ('u', 1)], true),
    sp!("divide", 'U', &[('u', 1), ('u', 2)], true),
    sp!("percentage", 'U', &[('u', 0), ('u', 1)], true),
    sp!("percentage_difference", 'I', &[('h', 0), ('h', 1)], true),
    // cumulative.rs
    sp!("cumulative", 'U', &[('u', 0)], true),
    sp!("cumulative_binary", 'U', &[('u', 0), ('u', 1)], true),
    sp!("cumulative_transformed_binary", 'U', &[('u', 0), ('u', 1)], true),
    sp!("cumulative_count", 'X', &[('u', 0)], true),
    sp!("rolling_count", 'X', &[('u', 0)], true),
    sp!("cumulative_count_from", 'X', &[('u', 0)], true),
    // lookback.rs
    sp!("previous_value", 'F', &[('h', 0)], true),
    sp!("change", 'I', &[('h', 0)], true),
    sp!("ratio_change", 'F', &[('h', 0)], false),
    sp!("percentage_change", 'F', &[('h', 0)], false),
    sp!("rolling_from_window_starts", 'D', &[('s', 0), ('h', 0)], false),
    sp!("rolling_ratio_change", 'D', &[('s', 0), ('h', 0)], false),
    sp!("rolling_percentage_change", 'D', &[('s', 0), ('h', 0)], false),
    sp!("rolling_change", 'D', &[('s', 0), ('h', 0)], false),
    sp!("cagr", 'F', &[('h', 0)], false),
    sp!("lookback", 'U', &[('s', 0), ('u', 0)], true),
    // aggregates.rs
    sp!("sum_of_others", 'U', &[('u', 0), ('u', 1), ('u', 2)], true),
    sp!("min_of_others", 'U', &[('u', 0), ('u', 1), ('u', 2)], true),
    sp!("max_of_others", 'U', &[('u', 0), ('u', 1), ('u', 2)], true),
    sp!("weighted_average_of_others", 'D', &[('h', 0), ('h', 1), ('d', 0), ('d', 1)], false),
    sp!("sum_from_indexes", 'U', &[('g', 0)], true),
    sp!("filtered_sum_from_indexes", 'U', &[('g', 0)], true),
    sp!("count_from_indexes", 'X', &[('g', 0)], true),
    sp!("filtered_count_from_indexes", 'X', &[('g', 0)], true),
    // statistics.rs
    sp!("max", 'U', &[('u', 0)], true),
    sp!("min", 'U', &[('u', 0)], true),
    sp!("sum", 'U', &[('u', 0)], true),
    sp!("rolling_sum", 'U', &[('s', 0), ('u', 0)], true),
    sp!("rolling_average", 'D', &[('s', 0), ('h', 0)], false),
    sp!("rolling_ema", 'D', &[('s', 0), ('h', 0)], false),
    sp!("rolling_rma", 'D', &[('s', 0), ('h', 0)], false),
    sp!("rolling_max_from_starts", 'U', &[('s', 0), ('u', 0)], true),
    sp!("rolling_min_from_starts", 'U', &[('s', 0), ('u', 0)], true),
    sp!("rolling_ratio", 'D', &[('s', 0), ('h', 0), ('h', 3)], false),
    sp!("sma", 'F', &[('h', 0)], false),
    sp!("sma_min", 'F', &[('h', 0)], false),
    sp!("rolling_median", 'F', &[('h', 0)], false),
    sp!("ema", 'F', &[('h', 0)], false),
    sp!("ema_min", 'F', &[('h', 0)], false),
    sp!("rma", 'F', &[('h', 0)], false),
    sp!("all_time_high", 'U', &[('u', 0)], true),
    sp!("all_time_low", 'U', &[('u', 0)], true),
    sp!("all_time_low_excl", 'U', &[('u', 0)], false),
    sp!("all_time_high_from", 'U', &[('u', 0)], true),
    sp!("all_time_low_from", 'U', &[('u', 0)], false),
    sp!("zscore", 'F', &[('f', 0), ('f', 1), ('f', 2)], false),
];

pub fn methods() -> Vec<&'static str> {
    SPECS.iter().map(|s| s.name).collect()
}

impl Spec {
    fn count(&self, g: char) -> usize {
        self.used.iter().filter(|(c, _)| *c == g).map(|(_, k)| k + 1).max().unwrap_or(0)
    }
    fn has(&self, g: char) -> bool {
        self.used.iter().any(|(c, _)| *c == g)
    }
    /// length of the shortest governing source (output-index space)
    fn gov_len(&self, m: &Model) -> usize {
        self.used.iter().map(|(g, k)| if "uhfd".contains(*g) { m.len_k(*k) } else { m.n() }).min().unwrap()
    }
}

// ---------------------------------------------------------------------------------------------
// sources
// ---------------------------------------------------------------------------------------------
struct Srcs<S: Fam> {
    u: Vec<S::V<u64>>,
    h: Vec<S::V<u16>>,
    f: Vec<S::V<f32>>,
    d: Vec<S::V<f64>>,
    st: Vec<S::V<Ix>>,
    fi: Vec<S::V<Ix>>,
    cn: Vec<S::V<u16>>,
    inn: Vec<S::V<u64>>,
    fp: Vec<S::V<Ix>>,
}

fn imp<V: ImportableVec>(db: &Database, name: &str, ver: u32) -> Result<V, String> {
    V::forced_import(db, name, Version::new(ver)).map_err(|e| format!("import {name}: {e:?}"))
}

fn sync<V: StoredVec<I = Ix>>(v: &mut V, target: &[V::T]) -> Result<(), String> {
    if v.len() > target.len() {
        v.truncate_if_needed_at(target.len()).map_err(|e| format!("truncate {}: {e:?}", v.name()))?;
    }
    let from = v.len();
    for x in &target[from..] {
        v.push(x.clone());
    }
    Ok(())
}

fn same<V: StoredVec<I = Ix>>(v: &V, target: &[V::T]) -> Option<String>
where
    V::T: Cell,
{
    let a: Vec<u64> = v.collect().iter().map(|x| x.bits()).collect();
    let b: Vec<u64> = target.iter().map(|x| x.bits()).collect();
    if a == b { None } else { Some(format!("source {} holds {:?}, model says {:?}", v.name(), a, b)) }
}

macro_rules! all_srcs {
    ($s:expr, $v:ident => $e:expr) => {{
        for $v in $s.u.iter_mut() {
            $e;
        }
        for $v in $s.h.iter_mut() {
            $e;
        }
        for $v in $s.f.iter_mut() {
            $e;
        }
        for $v in $s.d.iter_mut() {
            $e;
        }
        for $v in $s.st.iter_mut() {
            $e;
        }
        for $v in $s.fi.iter_mut() {
            $e;
        }
        for $v in $s.cn.iter_mut() {
            $e;
        }
        for $v in $s.inn.iter_mut() {
            $e;
        }
        for $v in $s.fp.iter_mut() {
            $e;
        }
    }};
}

impl<S: Fam> Srcs<S> {
    fn open(db: &Database, sp: &Spec, ver: u32, uver: &[u32]) -> Result<Self, String> {
        let mut s = Srcs::<S> { u: vec![], h: vec![], f: vec![], d: vec![], st: vec![], fi: vec![], cn: vec![], inn: vec![], fp: vec![] };
        for k in 0..sp.count('u') {
            s.u.push(imp(db, &format!("u{k}"), uver.get(k).copied().unwrap_or(ver))?);
        }
        for k in 0..sp.count('h') {
            s.h.push(imp(db, &format!("h{k}"), ver)?);
        }
        for k in 0..sp.count('f') {
            s.f.push(imp(db, &format!("f{k}"), ver)?);
        }
        for k in 0..sp.count('d') {
            s.d.push(imp(db, &format!("d{k}"), ver)?);
        }
        if sp.has('s') {
            s.st.push(imp(db, "st", ver)?);
        }
        if sp.has('g') {
            s.fi.push(imp(db, "fi", ver)?);
            s.cn.push(imp(db, "cn", ver)?);
            s.inn.push(imp(db, "inn", ver)?);
        }
        if sp.has('p') {
            s.fp.push(imp(db, "fp", ver)?);
        }
        Ok(s)
    }
    fn sync_all(&mut self, m: &Model) -> Result<(), String> {
        for (k, v) in self.u.iter_mut().enumerate() {
            sync(v, &m.u(k))?;
        }
        for (k, v) in self.h.iter_mut().enumerate() {
            sync(v, &m.h(k))?;
        }
        for (k, v) in self.f.iter_mut().enumerate() {
            sync(v, &m.f(k))?;
        }
        for (k, v) in self.d.iter_mut().enumerate() {
            sync(v, &m.d(k))?;
        }
        for v in self.st.iter_mut() {
            sync(v, &m.st())?;
        }
        for v in self.fi.iter_mut() {
            sync(v, &m.fi())?;
        }
        for v in self.cn.iter_mut() {
            sync(v, &m.cn())?;
        }
        for v in self.inn.iter_mut() {
            sync(v, &m.inn())?;
        }
        for v in self.fp.iter_mut() {
            sync(v, &m.fp())?;
        }
        Ok(())
    }
    fn verify(&self, m: &Model) -> Option<String> {
        for (k, v) in self.u.iter().enumerate() {
            if let Some(e) = same(v, &m.u(k)) {
                return Some(e);
            }
        }
        for (k, v) in self.h.iter().enumerate() {
            if let Some(e) = same(v, &m.h(k)) {
                return Some(e);
            }
        }
        for (k, v) in self.f.iter().enumerate() {
            if let Some(e) = same(v, &m.f(k)) {
                return Some(e);
            }
        }
        for (k, v) in self.d.iter().enumerate() {
            if let Some(e) = same(v, &m.d(k)) {
                return Some(e);
            }
        }
        for v in self.st.iter() {
            if let Some(e) = same(v, &m.st()) {
                return Some(e);
            }
        }
        for v in self.fi.iter() {
            if let Some(e) = same(v, &m.fi()) {
                return Some(e);
            }
        }
        for v in self.cn.iter() {
            if let Some(e) = same(v, &m.cn()) {
                return Some(e);
            }
        }
        for v in self.inn.iter() {
            if let Some(e) = same(v, &m.inn()) {
                return Some(e);
            }
        }
        for v in self.fp.iter() {
            if let Some(e) = same(v, &m.fp()) {
                return Some(e);
            }
        }
        None
    }
    fn write_all(&mut self) -> Result<(), String> {
        let mut r = Ok(());
        all_srcs!(self, v => if let Err(e) = v.write() { r = Err(format!("write {}: {e:?}", v.name())) });
        r
    }
    fn flush_all(&mut self) -> Result<(), String> {
        let mut r = Ok(());
        all_srcs!(self, v => if let Err(e) = v.flush() { r = Err(format!("flush {}: {e:?}", v.name())) });
        r
    }
}

// ---------------------------------------------------------------------------------------------
// output vector (one of five element types)
// ---------------------------------------------------------------------------------------------
enum Out<O: Fam> {
    U(EagerVec<O::V<u64>>),
    I(EagerVec<O::V<i64>>),
    X(EagerVec<O::V<Ix>>),
    F(EagerVec<O::V<f32>>),
    D(EagerVec<O::V<f64>>),
}

macro_rules! out_do {
    ($o:expr, $v:ident => $e:expr) => {
        match $o {
            Out::U($v) => $e,
            Out::I($v) => $e,
            Out::X($v) => $e,
            Out::F($v) => $e,
            Out::D($v) => $e,
        }
    };
}

fn kind_size(kind: char) -> usize {
    if kind == 'F' { 4 } else { 8 }
}

impl<O: Fam> Out<O> {
    fn open(db: &Database, name: &str, kind: char) -> Result<Self, String> {
        Ok(match kind {
            'U' => Out::U(imp(db, name, 1)?),
            'I' => Out::I(imp(db, name, 1)?),
            'X' => Out::X(imp(db, name, 1)?),
            'F' => Out::F(imp(db, name, 1)?),
            _ => Out::D(imp(db, name, 1)?),
        })
    }
    fn bits(&self) -> Vec<u64> {
        out_do!(self, v => v.collect().iter().map(|x| x.bits()).collect())
    }
    fn len(&self) -> usize {
        out_do!(self, v => v.len())
    }
    fn cv(&self) -> Version {
        out_do!(self, v => v.header().computed_version())
    }
    fn write(&mut self) -> Result<(), String> {
        out_do!(self, v => v.write().map(|_| ()).map_err(|e| format!("write out: {e:?}")))
    }
    fn flush(&mut self) -> Result<(), String> {
        out_do!(self, v => v.flush().map_err(|e| format!("flush out: {e:?}")))
    }
}

// ---------------------------------------------------------------------------------------------
// the method under test
// ---------------------------------------------------------------------------------------------
struct AddT;
impl BinaryTransform<u64, u64, u64> for AddT {
    fn apply(a: u64, b: u64) -> u64 {
        a + b
    }
}

fn pick(v: u64) -> bool {
    v % 3 == 1
}

/// Runs `--method` on `out` with starting index `mf`. `rec` receives the indices the user closure was called
/// with (compute_to / compute_transform only).
fn call<S: Fam, O: Fam>(m: &str, out: &mut Out<O>, s: &Srcs<S>, mf: usize, w: usize, rec: &mut Vec<usize>) -> vecdb::Result<()> {
    let exit = Exit::new();
    let e = &exit;
    let mf = Ix::from(mf);
    match (m, out) {
        // ---- transforms.rs
        ("to", Out::U(o)) => {
            let a = s.u[0].collect();
            o.compute_to(
                mf,
                s.u[0].len(),
                s.u[0].version(),
                |i| {
                    rec.push(usize::from(i));
                    (i, a[usize::from(i)] * 3 + 1)
                },
                e,
            )
        }
        ("range", Out::U(o)) => {
            let a = s.u[0].collect();
            o.compute_range(mf, &s.u[0], |i| (i, a[usize::from(i)] + 5), e)
        }
        ("from_index", Out::X(o)) => o.compute_from_index(mf, &s.u[0], e),
        ("transform", Out::U(o)) => o.compute_transform(
            mf,
            &s.u[0],
            |(i, v, _)| {
                rec.push(usize::from(i));
                (i, v * 3 + 1)
            },
            e,
        ),
        ("transform2", Out::U(o)) => o.compute_transform2(mf, &s.u[0], &s.u[1], |(i, a, b, _)| (i, 2 * a + b), e),
        ("binary", Out::U(o)) => o.compute_binary::<u64, u64, AddT>(mf, &s.u[0], &s.u[1], e),
        ("transform3", Out::U(o)) => o.compute_transform3(mf, &s.u[0], &s.u[1], &s.u[2], |(i, a, b, c, _)| (i, a + b + 2 * c), e),
        ("transform4", Out::U(o)) => {
            o.compute_transform4(mf, &s.u[0], &s.u[1], &s.u[2], &s.h[0], |(i, a, b, c, d, _)| (i, a + b + c + 3 * d as u64), e)
        }
        ("indirect_sequential", Out::U(o)) => o.compute_indirect_sequential(mf, &s.st[0], &s.u[0], e),
        ("first_per_index", Out::X(o)) => o.compute_first_per_index(mf, &s.fp[0], e),
        // ---- arithmetic.rs
        ("add", Out::U(o)) => o.compute_add(mf, &s.u[0], &s.u[1], e),
        ("subtract", Out::U(o)) => o.compute_subtract(mf, &s.u[1], &s.u[0], e),
        ("multiply", Out::U(o)) => o.compute_multiply(mf, &s.u[0], &s.u[1], e),
        ("divide", Out::U(o)) => o.compute_divide(mf, &s.u[1], &s.u[2], e),
        ("percentage", Out::U(o)) => o.compute_percentage(mf, &s.u[0], &s.u[1], e),
        ("percentage_difference", Out::I(o)) => o.compute_percentage_difference(mf, &s.h[0], &s.h[1], e),
        // ---- cumulative.rs
        ("cumulative", Out::U(o)) => o.compute_cumulative(mf, &s.u[0], e),
        ("cumulative_binary", Out::U(o)) => o.compute_cumulative_binary(mf, &s.u[0], &s.u[1], e),
        ("cumulative_transformed_binary", Out::U(o)) => o.compute_cumulative_transformed_binary(mf, &s.u[0], &s.u[1], |a: u64, b: u64| a * b, e),
        ("cumulative_count", Out::X(o)) => o.compute_cumulative_count(mf, &s.u[0], |v: &u64| pick(*v), e),
        ("rolling_count", Out::X(o)) => o.compute_rolling_count(mf, &s.u[0], w, |v: &u64| pick(*v), e),
        ("cumulative_count_from", Out::X(o)) => o.compute_cumulative_count_from(mf, &s.u[0], Ix(2), |v: &u64| pick(*v), e),
        // ---- lookback.rs
        ("previous_value", Out::F(o)) => o.compute_previous_value(mf, &s.h[0], w, e),
        ("change", Out::I(o)) => o.compute_change(mf, &s.h[0], w, e),
        ("ratio_change", Out::F(o)) => o.compute_ratio_change(mf, &s.h[0], w, e),
        ("percentage_change", Out::F(o)) => o.compute_percentage_change(mf, &s.h[0], w, e),
        ("rolling_from_window_starts", Out::D(o)) => o.compute_rolling_from_window_starts(mf, &s.st[0], &s.h[0], e, |c, p| c * 2.0 + p),
        ("rolling_ratio_change", Out::D(o)) => o.compute_rolling_ratio_change(mf, &s.st[0], &s.h[0], e),
        ("rolling_percentage_change", Out::D(o)) => o.compute_rolling_percentage_change(mf, &s.st[0], &s.h[0], e),
        ("rolling_change", Out::D(o)) => o.compute_rolling_change(mf, &s.st[0], &s.h[0], e),
        ("cagr", Out::F(o)) => o.compute_cagr(mf, &s.h[0], 730, e),
        ("lookback", Out::U(o)) => o.compute_lookback(mf, &s.st[0], &s.u[0], e),
        // ---- aggregates.rs
        ("sum_of_others", Out::U(o)) => o.compute_sum_of_others(mf, &[&s.u[0], &s.u[1], &s.u[2]], e),
        ("min_of_others", Out::U(o)) => o.compute_min_of_others(mf, &[&s.u[0], &s.u[1], &s.u[2]], e),
        ("max_of_others", Out::U(o)) => o.compute_max_of_others(mf, &[&s.u[0], &s.u[1], &s.u[2]], e),
        ("weighted_average_of_others", Out::D(o)) => o.compute_weighted_average_of_others(mf, &[&s.h[0], &s.h[1]], &[&s.d[0], &s.d[1]], e),
        ("sum_from_indexes", Out::U(o)) => o.compute_sum_from_indexes(mf, &s.fi[0], &s.cn[0], &s.inn[0], e),
        ("filtered_sum_from_indexes", Out::U(o)) => o.compute_filtered_sum_from_indexes(mf, &s.fi[0], &s.cn[0], &s.inn[0], |v: &u64| *v % 3 != 0, e),
        ("count_from_indexes", Out::X(o)) => o.compute_count_from_indexes(mf, &s.fi[0], &s.inn[0], e),
        ("filtered_count_from_indexes", Out::X(o)) => o.compute_filtered_count_from_indexes(mf, &s.fi[0], &s.inn[0], |a: Ix| a.0 % 2 == 0, e),
        // ---- statistics.rs
        ("max", Out::U(o)) => o.compute_max(mf, &s.u[0], w, e),
        ("min", Out::U(o)) => o.compute_min(mf, &s.u[0], w, e),
        ("sum", Out::U(o)) => o.compute_sum(mf, &s.u[0], w, e),
        ("rolling_sum", Out::U(o)) => o.compute_rolling_sum(mf, &s.st[0], &s.u[0], e),
        ("rolling_average", Out::D(o)) => o.compute_rolling_average(mf, &s.st[0], &s.h[0], e),
        ("rolling_ema", Out::D(o)) => o.compute_rolling_ema(mf, &s.st[0], &s.h[0], e),
        ("rolling_rma", Out::D(o)) => o.compute_rolling_rma(mf, &s.st[0], &s.h[0], e),
        ("rolling_max_from_starts", Out::U(o)) => o.compute_rolling_max_from_starts(mf, &s.st[0], &s.u[0], e),
        ("rolling_min_from_starts", Out::U(o)) => o.compute_rolling_min_from_starts(mf, &s.st[0], &s.u[0], e),
        ("rolling_ratio", Out::D(o)) => o.compute_rolling_ratio(mf, &s.st[0], &s.h[0], &s.h[3], e),
        ("sma", Out::F(o)) => o.compute_sma(mf, &s.h[0], w, e),
        ("sma_min", Out::F(o)) => o.compute_sma_(mf, &s.h[0], w, e, Some(Ix(1))),
        ("rolling_median", Out::F(o)) => o.compute_rolling_median(mf, &s.h[0], w, e),
        ("ema", Out::F(o)) => o.compute_ema(mf, &s.h[0], w, e),
        ("ema_min", Out::F(o)) => o.compute_ema_(mf, &s.h[0], w, e, Some(Ix(1))),
        ("rma", Out::F(o)) => o.compute_rma(mf, &s.h[0], w, e),
        ("all_time_high", Out::U(o)) => o.compute_all_time_high(mf, &s.u[0], e),
        ("all_time_low", Out::U(o)) => o.compute_all_time_low(mf, &s.u[0], e),
        ("all_time_low_excl", Out::U(o)) => o.compute_all_time_low_(mf, &s.u[0], e, true),
        ("all_time_high_from", Out::U(o)) => o.compute_all_time_high_from(mf, &s.u[0], Ix(1), e),
        ("all_time_low_from", Out::U(o)) => o.compute_all_time_low_from(mf, &s.u[0], Ix(1), e),
        ("zscore", Out::F(o)) => o.compute_zscore(mf, &s.f[0], &s.f[1], &s.f[2], e),
        (other, _) => panic!("harness: method {other} not wired / wrong output kind"),
    }
}

// ---------------------------------------------------------------------------------------------
// ORACLE B: closed forms over the model (bit patterns of the output element type)
// ---------------------------------------------------------------------------------------------
fn closed(name: &str, m: &Model, n: usize) -> Option<Vec<u64>> {
    let (a, b, c) = (m.u(0), m.u(1), m.u(2));
    let h0 = m.h(0);
    let h1 = m.h(1);
    let st: Vec<usize> = m.st().iter().map(|x| x.0 as usize).collect();
    let w = m.w;
    let lo = |i: usize| (i + 1).saturating_sub(w);
    let cn: Vec<usize> = m.cn().iter().map(|x| *x as usize).collect();
    let fi: Vec<usize> = m.fi().iter().map(|x| x.0 as usize).collect();
    let inn = m.inn();
    let pre = |f: &dyn Fn(usize) -> u64| -> Vec<u64> {
        let mut acc = 0u64;
        (0..n)
            .map(|i| {
                acc += f(i);
                acc
            })
            .collect()
    };
    let each = |f: &dyn Fn(usize) -> u64| -> Vec<u64> { (0..n).map(f).collect() };
    let r = match name {
        "to" | "transform" => each(&|i| a[i] * 3 + 1),
        "range" => each(&|i| a[i] + 5),
        "from_index" => each(&|i| i as u64),
        "transform2" => each(&|i| 2 * a[i] + b[i]),
        "binary" | "add" => each(&|i| a[i] + b[i]),
        "sum_of_others" => each(&|i| a[i] + b[i] + c[i]),
        "transform3" => each(&|i| a[i] + b[i] + 2 * c[i]),
        "transform4" => each(&|i| a[i] + b[i] + c[i] + 3 * h0[i] as u64),
        "indirect_sequential" | "lookback" => each(&|i| a[st[i]]),
        "first_per_index" => {
            let mut out: Vec<u64> = vec![];
            for (t, i) in m.fp().iter().enumerate() {
                let i = i.0 as usize;
                if i >= out.len() {
                    while out.len() <= i {
                        out.push(t as u64);
                    }
                }
            }
            out
        }
        "subtract" => each(&|i| b[i] - a[i]),
        "multiply" => each(&|i| a[i] * b[i]),
        "divide" => each(&|i| b[i] / c[i]),
        "percentage" => each(&|i| a[i] * 100 / b[i]),
        "percentage_difference" => each(&|i| (h0[i] as i64 * 100 / h1[i] as i64 - 100) as u64),
        "cumulative" => pre(&|i| a[i]),
        "cumulative_binary" => pre(&|i| a[i] + b[i]),
        "cumulative_transformed_binary" => pre(&|i| a[i] * b[i]),
        "cumulative_count" => pre(&|i| pick(a[i]) as u64),
        "cumulative_count_from" => pre(&|i| (i >= 2 && pick(a[i])) as u64),
        "rolling_count" => each(&|i| (lo(i)..=i).filter(|&j| pick(a[j])).count() as u64),
        "previous_value" => each(&|i| if i < w { f32::NAN.to_bits() as u64 } else { (h0[i - w] as f32).to_bits() as u64 }),
        "change" => each(&|i| if i < w { 0 } else { (h0[i] as i64 - h0[i - w] as i64) as u64 }),
        "min_of_others" => each(&|i| a[i].min(b[i]).min(c[i])),
        "max_of_others" => each(&|i| a[i].max(b[i]).max(c[i])),
        "sum_from_indexes" => each(&|g| inn[fi[g]..fi[g] + cn[g]].iter().sum()),
        "filtered_sum_from_indexes" => each(&|g| inn[fi[g]..fi[g] + cn[g]].iter().filter(|v| **v % 3 != 0).sum()),
        "count_from_indexes" => each(&|g| cn[g] as u64),
        "filtered_count_from_indexes" => each(&|g| (fi[g]..fi[g] + cn[g]).filter(|p| p % 2 == 0).count() as u64),
        "max" => each(&|i| *a[lo(i)..=i].iter().max().unwrap()),
        "min" => each(&|i| *a[lo(i)..=i].iter().min().unwrap()),
        "sum" => each(&|i| a[lo(i)..=i].iter().sum()),
        "rolling_sum" => each(&|i| a[st[i]..=i].iter().sum()),
        "rolling_max_from_starts" => each(&|i| *a[st[i]..=i].iter().max().unwrap()),
        "rolling_min_from_starts" => each(&|i| *a[st[i]..=i].iter().min().unwrap()),
        "all_time_high" => each(&|i| *a[..=i].iter().max().unwrap()),
        "all_time_low" => each(&|i| *a[..=i].iter().min().unwrap()),
        "all_time_high_from" => each(&|i| if i < 1 { 0 } else { *a[1..=i].iter().max().unwrap() }),
        _ => return None,
    };
    Some(r)
}

// ---------------------------------------------------------------------------------------------
// replay
// ---------------------------------------------------------------------------------------------
struct Cfg {
    spec: &'static Spec,
    w: usize,
    lag: usize,
    input: String,
    srcfmt: String,
    outfmt: String,
    hang_secs: u64,
    /// print every compute result on stderr (debugging aid)
    trace: bool,
}

#[derive(Default)]
struct Stats {
    behaviours: u64,
    computes: u64,
    steps: u64,
    nontrivial: BTreeSet<u64>,
    batches_gt1: u64,
    both_failed: u64,
    clamped: u64,
    closed_checked: u64,
    violations: Vec<Value>,
}

impl Stats {
    fn summary(&self, cfg: &Cfg) -> Value {
        json!({"method": cfg.spec.name, "srcfmt": cfg.srcfmt, "outfmt": cfg.outfmt, "window": cfg.w, "lag": cfg.lag,
            "behaviours": self.behaviours, "computes": self.computes, "steps": self.steps,
            "distinct_nontrivial": self.nontrivial.len(), "batches_gt1": self.batches_gt1,
            "both_failed": self.both_failed, "max_from_clamped": self.clamped, "closed_form_checked": self.closed_checked,
            "violations": self.violations})
    }
}

/// armed around every call into the code under test: a compute that does not return is reported and ends the run
type Watch = Arc<Mutex<Option<(Instant, Value, PathBuf)>>>;

fn short(s: &Value) -> String {
    match s["op"].as_str().unwrap_or("?") {
        "append" => format!("append{}", s["vals"]),
        "truncate" => format!("truncate({})", s["to"]),
        "compute" => format!("compute(mf={},cap={})", s["max_from"], s["cap"]),
        o => o.to_string(),
    }
}

fn classify(r: &std::thread::Result<vecdb::Result<()>>) -> (String, String) {
    match r {
        Ok(Ok(())) => ("ok".into(), "ok".into()),
        Ok(Err(e)) => {
            let d = format!("{e:?}");
            let var: String = d.chars().take_while(|c| c.is_alphanumeric() || *c == '_').collect();
            (format!("err:{var}"), format!("Err({d})"))
        }
        Err(p) => {
            let msg = p.downcast_ref::<&str>().map(|s| s.to_string()).or_else(|| p.downcast_ref::<String>().cloned()).unwrap_or_default();
            ("panic".into(), format!("panic: {msg}"))
        }
    }
}

struct World<S: Fam, O: Fam> {
    srcs: Srcs<S>,
    out: Out<O>,
    db: Database,
}

fn open_world<S: Fam, O: Fam>(path: &std::path::Path, sp: &Spec, ver: u32, uver: &[u32]) -> Result<World<S, O>, String> {
    let db = Database::open(path).map_err(|e| format!("open db: {e:?}"))?;
    let srcs = Srcs::<S>::open(&db, sp, ver, uver)?;
    let out = Out::<O>::open(&db, "out", sp.kind)?;
    Ok(World { srcs, out, db })
}

/// Replays one history; returns the first violation (the history stops there).
fn replay<S: Fam, O: Fam>(cfg: &Cfg, bidx: usize, steps: &[Value], stats: &Mutex<Stats>, watch: &Watch) -> Option<Value> {
    let sp = cfg.spec;
    let kind = sp.kind;
    let scratch = Scratch::new("eag");
    let nu = sp.count('u');
    let mut model = Model { base: vec![], w: cfg.w, lag: cfg.lag, off: vec![0; nu] };
    let mut ver = 1u32;
    let mut uver: Vec<u32> = vec![1; nu];
    let mut nbumps = 0usize;
    let mut world: Option<World<S, O>> = None;
    let mut bumped = false;
    let mut dirty_from = usize::MAX;
    let mut fresh_n = 0u32;
    let mut ncomp = 0u32;
    let hist = |si: usize| json!(steps[..=si].iter().map(short).collect::<Vec<_>>());
    let viol = |si: usize, what: String, extra: Value| {
        let mut v = json!({"behaviour": bidx, "step": si, "what": what, "steps": hist(si)});
        if let (Some(o), Some(e)) = (v.as_object_mut(), extra.as_object()) {
            for (k, x) in e {
                o.insert(k.clone(), x.clone());
            }
        }
        v
    };
    let arm = |si: usize, what: &str| {
        *watch.lock().unwrap() = Some((
            Instant::now() + Duration::from_secs(cfg.hang_secs),
            viol(si, format!("hang: {what} did not return within {} s", cfg.hang_secs), json!({})),
            scratch.path().to_path_buf(),
        ));
    };
    let disarm = || {
        *watch.lock().unwrap() = None;
    };

    for (si, step) in steps.iter().enumerate() {
        stats.lock().unwrap().steps += 1;
        let op = step["op"].as_str().unwrap_or("?").to_string();
        // Ok(None): continue, Ok(Some(v)): violation, Err(""): stop the history quietly, Err(msg): harness-level failure
        let r = catch_unwind(AssertUnwindSafe(|| -> Result<Option<Value>, String> {
            if world.is_none() {
                world = Some(open_world::<S, O>(scratch.path(), sp, ver, &uver)?);
            }
            match op.as_str() {
                "append" => {
                    let vals: Vec<u64> = step["vals"].as_array().ok_or("append: vals")?.iter().map(|x| x.as_u64().unwrap_or_else(|| x.as_i64().unwrap_or(0).unsigned_abs())).collect();
                    model.base.extend(vals);
                    world.as_mut().unwrap().srcs.sync_all(&model)?;
                    Ok(None)
                }
                "truncate" => {
                    let to = (step["to"].as_u64().ok_or("truncate: to")? as usize).min(model.n());
                    model.base.truncate(to);
                    world.as_mut().unwrap().srcs.sync_all(&model)?;
                    dirty_from = dirty_from.min(sp.gov_len(&model));
                    Ok(None)
                }
                "write" => {
                    let wd = world.as_mut().unwrap();
                    wd.srcs.write_all()?;
                    wd.out.write()?;
                    Ok(None)
                }
                "reimport" => {
                    let mut wd = world.take().unwrap();
                    let cv = wd.out.cv();
                    let before = wd.out.bits();
                    wd.srcs.flush_all()?;
                    wd.out.flush()?;
                    wd.db.flush().map_err(|e| format!("db flush: {e:?}"))?;
                    let World { srcs, out, db } = wd;
                    drop(srcs);
                    drop(out);
                    drop(db);
                    world = Some(open_world::<S, O>(scratch.path(), sp, ver, &uver)?);
                    let wd = world.as_ref().unwrap();
                    if wd.out.cv() != cv {
                        return Ok(Some(viol(si, format!("computed version not preserved by re-import: {:?} before, {:?} after", cv, wd.out.cv()), json!({}))));
                    }
                    let after = wd.out.bits();
                    if after != before {
                        return Ok(Some(viol(si, "stored results changed by re-import".into(), json!({"incremental": show(kind, &after), "scratch": show(kind, &before)}))));
                    }
                    if let Some(e) = wd.srcs.verify(&model) {
                        return Ok(Some(viol(si, format!("source content after re-import (storage layer, not an eager defect): {e}"), json!({}))));
                    }
                    Ok(None)
                }
                "bump" => {
                    let wd = world.take().unwrap();
                    let World { srcs, out, db } = wd;
                    drop(srcs);
                    if nu >= 2 {
                        // several inputs: the version (and the contents) of ONE of them changes, last input first
                        let j = nu - 1 - (nbumps % nu);
                        uver[j] += 1;
                        model.off[j] += 100;
                    } else {
                        ver += 1;
                        for u in uver.iter_mut() { *u = ver; }
                        for v in model.base.iter_mut() {
                            *v += 100;
                        }
                    }
                    nbumps += 1;
                    let srcs = Srcs::<S>::open(&db, sp, ver, &uver)?;
                    world = Some(World { srcs, out, db });
                    world.as_mut().unwrap().srcs.sync_all(&model)?;
                    bumped = true;
                    Ok(None)
                }
                "compute" => {
                    let mf_req = step["max_from"].as_u64().ok_or("compute: max_from")? as usize;
                    let cap = step["cap"].as_u64().unwrap_or(0) as usize;
                    let mf = if bumped { mf_req } else { mf_req.min(dirty_from) };
                    let wd = world.as_mut().unwrap();
                    if let Some(e) = wd.srcs.verify(&model) {
                        return Ok(Some(viol(si, format!("source content (storage layer, not an eager defect): {e}"), json!({}))));
                    }
                    {
                        let mut st = stats.lock().unwrap();
                        st.computes += 1;
                        if mf != mf_req {
                            st.clamped += 1;
                        }
                    }
                    let len_before = wd.out.len();
                    let cv_before = wd.out.cv();
                    // 1. incremental run on the long-lived output
                    vecdb::verif::set_max_cache_size(if cap > 0 { cap * kind_size(kind) } else { GIB });
                    let mut rec: Vec<usize> = vec![];
                    arm(si, "incremental compute");
                    let inc = catch_unwind(AssertUnwindSafe(|| call::<S, O>(sp.name, &mut wd.out, &wd.srcs, mf, cfg.w, &mut rec)));
                    disarm();
                    vecdb::verif::set_max_cache_size(GIB);
                    let (inc_class, inc_msg) = classify(&inc);
                    // 2. ORACLE A: fresh vector, from 0, one batch
                    fresh_n += 1;
                    let mut fresh = Out::<O>::open(&wd.db, &format!("fresh{fresh_n}"), kind)?;
                    let mut rec2: Vec<usize> = vec![];
                    arm(si, "from-scratch compute");
                    let scr = catch_unwind(AssertUnwindSafe(|| call::<S, O>(sp.name, &mut fresh, &wd.srcs, 0, cfg.w, &mut rec2)));
                    disarm();
                    let (scr_class, scr_msg) = classify(&scr);
                    if inc_class != "ok" || scr_class != "ok" {
                        if inc_class == scr_class {
                            stats.lock().unwrap().both_failed += 1;
                            return Err(String::new());
                        }
                        return Ok(Some(viol(si, format!("incremental: {inc_msg}; from scratch: {scr_msg}"), json!({"max_from_used": mf}))));
                    }
                    let a = wd.out.bits();
                    let b = fresh.bits();
                    let cv_after = wd.out.cv();
                    let reset = cv_after != cv_before;
                    let start = if reset { 0 } else { mf.min(len_before) };
                    if cap > 0 && a.len().saturating_sub(start) > cap {
                        stats.lock().unwrap().batches_gt1 += 1;
                    }
                    if cfg.trace {
                        eprintln!("behaviour {bidx} step {si} mf {mf} cap {cap}: incremental {} scratch {}", show(kind, &a), show(kind, &b));
                    }
                    let both = json!({"incremental": show(kind, &a), "scratch": show(kind, &b), "max_from_used": mf});
                    if a != b {
                        let what = if a.len() != b.len() {
                            format!("length {} differs from from-scratch length {}", a.len(), b.len())
                        } else {
                            let i = (0..a.len()).find(|&i| a[i] != b[i]).unwrap();
                            format!("element {i} differs from from-scratch evaluation")
                        };
                        return Ok(Some(viol(si, what, both)));
                    }
                    let gov = sp.gov_len(&model);
                    if sp.name != "first_per_index" && b.len() != gov {
                        return Ok(Some(viol(si, format!("length {} but the shortest governing source has {}", b.len(), gov), both)));
                    }
                    // 3. ORACLE B
                    if sp.closed {
                        if let Some(c) = closed(sp.name, &model, gov) {
                            stats.lock().unwrap().closed_checked += 1;
                            if c != a {
                                let mut e = both.clone();
                                e["closed_form"] = show(kind, &c);
                                return Ok(Some(viol(si, "differs from the closed form".into(), e)));
                            }
                        }
                    }
                    // 4. version bookkeeping
                    if ncomp > 0 && bumped && !reset {
                        return Ok(Some(viol(si, format!("source versions changed but the recorded computed version stayed {:?}", cv_after), both)));
                    }
                    if ncomp > 0 && !bumped && reset {
                        return Ok(Some(viol(si, format!("computed version changed {:?} -> {:?} without a source version change", cv_before, cv_after), both)));
                    }
                    if sp.name == "to" || sp.name == "transform" {
                        let set: BTreeSet<usize> = rec.iter().copied().collect();
                        let mut e = both.clone();
                        e["evaluated"] = json!(rec);
                        if bumped {
                            if let Some(miss) = (0..a.len()).find(|i| !set.contains(i)) {
                                return Ok(Some(viol(si, format!("source version changed but index {miss} was not re-evaluated"), e)));
                            }
                        } else {
                            let bound = mf.min(len_before);
                            if let Some(x) = rec.iter().find(|&&x| x < bound) {
                                return Ok(Some(viol(si, format!("version unchanged but index {x} < min(max_from {mf}, stored length {len_before}) was re-evaluated"), e)));
                            }
                        }
                    }
                    bumped = false;
                    dirty_from = usize::MAX;
                    ncomp += 1;
                    drop(fresh);
                    Ok(None)
                }
                other => Err(format!("unknown op {other}")),
            }
        }));
        disarm();
        vecdb::verif::set_max_cache_size(GIB);
        match r {
            Ok(Ok(None)) => {}
            Ok(Ok(Some(v))) => return Some(v),
            Ok(Err(e)) if e.is_empty() => return None,
            Ok(Err(e)) => return Some(viol(si, format!("harness-level failure in {op}: {e}"), json!({}))),
            Err(p) => {
                let msg = p.downcast_ref::<&str>().map(|s| s.to_string()).or_else(|| p.downcast_ref::<String>().cloned()).unwrap_or_default();
                return Some(viol(si, format!("panic outside the compute call in {op}: {msg}"), json!({})));
            }
        }
    }
    None
}

fn run<S: Fam, O: Fam>(cfg: Arc<Cfg>) -> i32 {
    let rd = std::io::BufReader::new(std::fs::File::open(&cfg.input).expect("open input"));
    let stats = Arc::new(Mutex::new(Stats::default()));
    let watch: Watch = Arc::new(Mutex::new(None));
    {
        let (stats, watch, cfg) = (stats.clone(), watch.clone(), cfg.clone());
        std::thread::spawn(move || {
            loop {
                std::thread::sleep(Duration::from_millis(100));
                let fired = {
                    let w = watch.lock().unwrap();
                    match &*w {
                        Some((deadline, v, path)) if Instant::now() > *deadline => Some((v.clone(), path.clone())),
                        _ => None,
                    }
                };
                if let Some((v, path)) = fired {
                    let mut st = stats.lock().unwrap();
                    st.violations.push(v);
                    st.behaviours += 1;
                    let _ = writeln!(std::io::stdout(), "{}", st.summary(&cfg));
                    let _ = std::fs::remove_dir_all(path);
                    std::process::exit(1);
                }
            }
        });
    }
    for (bidx, l) in rd.lines().enumerate() {
        let l = l.unwrap();
        if l.trim().is_empty() {
            continue;
        }
        let steps: Vec<Value> = serde_json::from_str::<Value>(&l).expect("json").as_array().expect("array of steps").clone();
        let v = replay::<S, O>(&cfg, bidx, &steps, &stats, &watch);
        let mut st = stats.lock().unwrap();
        st.behaviours += 1;
        if steps.iter().filter(|s| s["op"] == "compute").count() >= 2 {
            st.nontrivial.insert(fnv(&steps.iter().map(short).collect::<Vec<_>>().join(";")));
        }
        if let Some(v) = v {
            st.violations.push(v);
        }
        if st.violations.len() >= 5 {
            break;
        }
    }
    let st = stats.lock().unwrap();
    writeln!(std::io::stdout(), "{}", st.summary(&cfg)).unwrap();
    if st.violations.is_empty() { 0 } else { 1 }
}

pub fn main(args: &[String]) -> i32 {
    let f = parse_flags(args);
    if f.contains_key("list") {
        for m in methods() {
            println!("{m}");
        }
        return 0;
    }
    let method = f.get("method").expect("--method").as_str();
    let Some(spec) = SPECS.iter().find(|s| s.name == method) else {
        eprintln!("unknown method {method} (see --list)");
        return 2;
    };
    let num = |k: &str, d: usize| f.get(k).map(|x| x.parse::<usize>().expect(k)).unwrap_or(d);
    let cfg = Arc::new(Cfg {
        spec,
        w: num("window", 2).max(1),
        lag: num("lag", 0),
        input: f.get("in").expect("--in").clone(),
        srcfmt: f.get("srcfmt").cloned().unwrap_or_else(|| "bytes".into()),
        outfmt: f.get("outfmt").cloned().unwrap_or_else(|| "bytes".into()),
        hang_secs: num("hang-secs", 10) as u64,
        trace: f.contains_key("trace"),
    });
    if spec.name == "rolling_average" && cfg.w > 5 {
        eprintln!("warning: rolling_average recovers its running sum as average*count; exact only while every window count is of the form 2^i+2^j (window <= 5)");
    }
    match (cfg.srcfmt.as_str(), cfg.outfmt.as_str()) {
        ("bytes", "bytes") => run::<FB, FB>(cfg),
        ("bytes", "pco") => run::<FB, FP>(cfg),
        ("pco", "bytes") => run::<FP, FB>(cfg),
        ("pco", "pco") => run::<FP, FP>(cfg),
        (a, b) => {
            eprintln!("formats {a}/{b}: use bytes|pco");
            2
        }
    }
}
