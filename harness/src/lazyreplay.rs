//! C15: lazily computed vectors against their defining formulas.
//!
//! Input: ndjson emitted from spec/Lazy.tla, one object per line `{"case":..,"def":..,"impl":..}`.
//! For every case the real lazy vector (LazyDeltaVec / LazyAggVec<Sparse> / LazyVecFrom2) is built over real
//! stored sources (BytesVec and PcoVec, plain and "source grows after the lazy vector was built") and every
//! read path of `ReadableVec` is compared with `def` (the defining formula). A disagreement that equals what the
//! as-is model predicts (`impl`, and impl != def) is a known deviation (D10); anything else is a violation.
//! One-, two- and three-source transforms are additionally swept over all (from, to) against the elementwise
//! formula computed here.
//!
//! Sentinels: -999 panic predicted, -998 no value (None), -997 never appears, -996 index outside the mapping.
use std::any::{Any, TypeId};
use std::collections::{BTreeMap, BTreeSet, HashMap, HashSet};
use std::io::{BufRead, Write};
use std::panic::{AssertUnwindSafe, catch_unwind};
use std::sync::Arc;
use std::sync::atomic::{AtomicBool, AtomicU32, Ordering};

use serde_json::{Value, json};
use vecdb::{
    AnyStoredVec, AnyVec, BytesVec, Cursor, Database, DeltaChange, DeltaOp, DeltaSub, ImportOptions, ImportableVec, LazyAggVec,
    LazyDeltaVec, LazyVecFrom1, LazyVecFrom2, LazyVecFrom3, PcoVec, PcoVecValue, ReadableBoxedVec, ReadableCloneableVec, ReadableVec,
    VecValue, Version, WritableVec,
};

use crate::util::{Scratch, fnv, parse_flags};

const PANIC: i64 = -999;
const NONE: i64 = -998;
const NEVER: i64 = -997;
const OOR: i64 = -996;

const TABLES: [[u64; 6]; 2] = [[3, 7, 12, 20, 33, 50], [103, 107, 112, 120, 133, 150]];

// ───────────────────────────── observations ─────────────────────────────

#[derive(Clone, PartialEq, Debug)]
enum Obs {
    Panic,
    /// a Cursor loop kept re-reading without advancing (cut by the read budget of `Budget`)
    Hang,
    Vals(Vec<i64>),
}
impl Obs {
    fn json(&self) -> Value {
        match self {
            Obs::Panic => json!("panic"),
            Obs::Hang => json!("does not terminate"),
            Obs::Vals(v) => json!(v),
        }
    }
}

#[derive(Clone, Copy, PartialEq, Debug)]
enum Kind {
    /// touches exactly the requested range
    Range,
    /// stops after the first element
    Early,
    /// goes through a Cursor: reads the whole aligned chunk (= the whole vector here)
    Cursor,
    Min,
    Max,
}

/// What a prediction array (def.range / impl.range, possibly containing -999) means for a path of kind `k`.
fn want(k: Kind, r: &[i64]) -> Obs {
    let r = if k == Kind::Early { &r[..r.len().min(1)] } else { r };
    if r.contains(&PANIC) {
        return Obs::Panic;
    }
    match k {
        Kind::Min => Obs::Vals(r.iter().min().map(|x| vec![*x]).unwrap_or_default()),
        Kind::Max => Obs::Vals(r.iter().max().map(|x| vec![*x]).unwrap_or_default()),
        _ => Obs::Vals(r.to_vec()),
    }
}

/// Element types of the lazy vectors under test, encoded into the model's integers.
trait Enc: VecValue + PartialOrd {
    fn enc(&self) -> i64;
    /// encoding of a point read (`collect_one_at`)
    fn enc_point(o: Option<Self>) -> i64 {
        o.map(|x| x.enc()).unwrap_or(NONE)
    }
    fn marker() -> Self;
}
impl Enc for u64 {
    fn enc(&self) -> i64 {
        *self as i64
    }
    fn marker() -> Self {
        0xDEAD
    }
}
impl Enc for f64 {
    fn enc(&self) -> i64 {
        if self.is_finite() && self.fract() == 0.0 { *self as i64 } else { NEVER * 1000 }
    }
    fn marker() -> Self {
        57005.0
    }
}
impl Enc for Option<u64> {
    fn enc(&self) -> i64 {
        self.map(|x| x as i64).unwrap_or(NONE)
    }
    fn enc_point(o: Option<Self>) -> i64 {
        o.map(|x| x.enc()).unwrap_or(OOR)
    }
    fn marker() -> Self {
        Some(0xDEAD)
    }
}

fn g<X>(f: impl FnOnce() -> X) -> Option<X> {
    catch_unwind(AssertUnwindSafe(f)).ok()
}
fn ov<T: Enc>(r: Option<Vec<T>>) -> Obs {
    match r {
        None => Obs::Panic,
        Some(v) => Obs::Vals(v.iter().map(Enc::enc).collect()),
    }
}
fn oo<T: Enc>(r: Option<Option<T>>) -> Obs {
    match r {
        None => Obs::Panic,
        Some(v) => Obs::Vals(v.iter().map(Enc::enc).collect()),
    }
}
/// a read that must APPEND to a buffer holding two markers
fn oapp<T: Enc>(r: Option<Vec<T>>) -> Obs {
    match r {
        None => Obs::Panic,
        Some(v) => {
            let m = T::marker().enc();
            if v.len() < 2 || v[0].enc() != m || v[1].enc() != m {
                Obs::Vals(vec![NEVER])
            } else {
                Obs::Vals(v[2..].iter().map(Enc::enc).collect())
            }
        }
    }
}
fn op1<T: Enc>(r: Option<Option<T>>) -> Obs {
    match r {
        None => Obs::Panic,
        Some(o) => Obs::Vals(vec![T::enc_point(o)]),
    }
}


/// Pass-through view of the vector under test that cuts non-terminating Cursor loops: more than `BUDGET`
/// buffer refills within one path (a handful of elements needs one) raise a panic that is reported as `Obs::Hang`.
struct Budget<'a, V> {
    v: &'a V,
    calls: AtomicU32,
    tripped: AtomicBool,
}
const BUDGET: u32 = 64;
impl<V: AnyVec> AnyVec for Budget<'_, V> {
    fn version(&self) -> Version {
        self.v.version()
    }
    fn name(&self) -> &str {
        self.v.name()
    }
    fn len(&self) -> usize {
        self.v.len()
    }
    fn index_type_to_string(&self) -> &'static str {
        self.v.index_type_to_string()
    }
    fn region_names(&self) -> Vec<String> {
        self.v.region_names()
    }
    fn value_type_to_size_of(&self) -> usize {
        self.v.value_type_to_size_of()
    }
    fn value_type_to_string(&self) -> &'static str {
        self.v.value_type_to_string()
    }
}
impl<T: VecValue, V: ReadableVec<usize, T>> ReadableVec<usize, T> for Budget<'_, V> {
    fn read_into_at(&self, from: usize, to: usize, buf: &mut Vec<T>) {
        if self.calls.fetch_add(1, Ordering::Relaxed) >= BUDGET {
            self.tripped.store(true, Ordering::Relaxed);
            panic!("read budget exceeded");
        }
        self.v.read_into_at(from, to, buf)
    }
    fn for_each_range_dyn_at(&self, from: usize, to: usize, f: &mut dyn FnMut(T)) {
        self.v.for_each_range_dyn_at(from, to, f)
    }
    fn fold_range_at<B, F: FnMut(B, T) -> B>(&self, from: usize, to: usize, init: B, f: F) -> B {
        self.v.fold_range_at(from, to, init, f)
    }
    fn try_fold_range_at<B, E, F: FnMut(B, T) -> Result<B, E>>(&self, from: usize, to: usize, init: B, f: F) -> Result<B, E> {
        self.v.try_fold_range_at(from, to, init, f)
    }
    fn collect_one_at(&self, index: usize) -> Option<T> {
        self.v.collect_one_at(index)
    }
    fn read_sorted_into_at(&self, indices: &[usize], out: &mut Vec<T>) {
        self.v.read_sorted_into_at(indices, out)
    }
}
/// run a Cursor path over the budgeted view
fn gc<T: Enc, V: ReadableVec<usize, T>, X>(v: &V, f: impl FnOnce(&Budget<V>) -> X, fin: impl FnOnce(Option<X>) -> Obs) -> Obs {
    let b = Budget { v, calls: AtomicU32::new(0), tripped: AtomicBool::new(false) };
    let r = g(|| f(&b));
    if r.is_none() && b.tripped.load(Ordering::Relaxed) { Obs::Hang } else { fin(r) }
}

/// Every range-shaped read path over [from, to).
fn range_paths<T: Enc, V: ReadableVec<usize, T>>(v: &V, from: usize, to: usize, sorted_kind: Kind) -> Vec<(&'static str, Kind, Obs)> {
    let d: &dyn ReadableVec<usize, T> = v;
    let push = |mut a: Vec<T>, x: T| {
        a.push(x);
        a
    };
    let two = || vec![T::marker(), T::marker()];
    let ixs: Vec<usize> = (from..to).collect();
    let n = to.saturating_sub(from);
    let mut o: Vec<(&'static str, Kind, Obs)> = Vec::with_capacity(40);
    use Kind::*;
    o.push(("collect_range_at", Range, ov(g(|| v.collect_range_at(from, to)))));
    o.push(("collect_range", Range, ov(g(|| v.collect_range(from, to)))));
    o.push(("collect_range_dyn", Range, ov(g(|| d.collect_range_dyn(from, to)))));
    o.push(("collect_range_into_at", Range, ov(g(|| {
        let mut b = two();
        d.collect_range_into_at(from, to, &mut b);
        b
    }))));
    o.push(("read_into_at", Range, oapp(g(|| {
        let mut b = two();
        d.read_into_at(from, to, &mut b);
        b
    }))));
    o.push(("read_into", Range, oapp(g(|| {
        let mut b = two();
        d.read_into(from, to, &mut b);
        b
    }))));
    o.push(("for_each_range_dyn_at", Range, ov(g(|| {
        let mut b = vec![];
        d.for_each_range_dyn_at(from, to, &mut |x| b.push(x));
        b
    }))));
    o.push(("for_each_range_dyn", Range, ov(g(|| {
        let mut b = vec![];
        d.for_each_range_dyn(from, to, &mut |x| b.push(x));
        b
    }))));
    o.push(("fold_range_at", Range, ov(g(|| v.fold_range_at(from, to, vec![], push)))));
    o.push(("fold_range", Range, ov(g(|| v.fold_range(from, to, vec![], push)))));
    o.push(("try_fold_range_at", Range, ov(g(|| v.try_fold_range_at(from, to, vec![], |a, x| Ok::<_, ()>(push(a, x))).unwrap()))));
    o.push(("try_fold_range", Range, ov(g(|| v.try_fold_range(from, to, vec![], |a, x| Ok::<_, ()>(push(a, x))).unwrap()))));
    o.push(("try_fold_range_at/early-exit", Early, ov(g(|| match v.try_fold_range_at(from, to, (), |(), x| Err::<(), T>(x)) {
        Ok(()) => vec![],
        Err(x) => vec![x],
    }))));
    o.push(("try_for_each_range_at", Range, ov(g(|| {
        let mut b = vec![];
        v.try_for_each_range_at(from, to, |x| {
            b.push(x);
            Ok::<_, ()>(())
        })
        .unwrap();
        b
    }))));
    o.push(("for_each_range_at", Range, ov(g(|| {
        let mut b = vec![];
        v.for_each_range_at(from, to, |x| b.push(x));
        b
    }))));
    o.push(("for_each_range", Range, ov(g(|| {
        let mut b = vec![];
        v.for_each_range(from, to, |x| b.push(x));
        b
    }))));
    o.push(("min_at", Min, oo(g(|| v.min_at(from, to)))));
    o.push(("max_at", Max, oo(g(|| v.max_at(from, to)))));
    o.push(("min", Min, oo(g(|| v.min(from, to)))));
    o.push(("max", Max, oo(g(|| v.max(from, to)))));
    o.push(("min_dyn", Min, oo(g(|| d.min_dyn(from, to)))));
    o.push(("max_dyn", Max, oo(g(|| d.max_dyn(from, to)))));
    o.push(("read_sorted_at(from..to)", sorted_kind, ov(g(|| d.read_sorted_at(&ixs)))));
    o.push(("read_sorted(from..to)", sorted_kind, ov(g(|| d.read_sorted(&ixs)))));
    o.push(("read_sorted_into_at(from..to)", sorted_kind, oapp(g(|| {
        let mut b = two();
        d.read_sorted_into_at(&ixs, &mut b);
        b
    }))));
    o.push(("Cursor::next", Cursor, gc(v, |w| {
        let mut c = vecdb::Cursor::new(w);
        c.advance(from);
        let mut b: Vec<T> = vec![];
        for _ in 0..n {
            match c.next() {
                Some(x) => b.push(x),
                None => break,
            }
        }
        b
    }, ov)));
    o.push(("cursor().fold", Cursor, gc(v, |w| {
        let mut c = w.cursor();
        c.advance(from);
        c.fold(n, vec![], push)
    }, ov)));
    o.push(("Cursor(dyn)::for_each", Cursor, gc(v, |w| {
        let dw: &dyn ReadableVec<usize, T> = w;
        let mut c = vecdb::Cursor::new(dw);
        c.advance(from);
        let mut b: Vec<T> = vec![];
        c.for_each(n, |x| b.push(x));
        b
    }, ov)));
    o.push(("Cursor::get(from..to)", Cursor, gc(v, |w| {
        let mut c = vecdb::Cursor::new(w);
        ixs.iter().filter_map(|&i| c.get(i)).collect::<Vec<T>>()
    }, ov)));
    o
}

/// Whole-vector paths (compared with the full expected contents).
fn full_paths<T: Enc, V: ReadableVec<usize, T>>(v: &V) -> Vec<(&'static str, Kind, Obs)> {
    let d: &dyn ReadableVec<usize, T> = v;
    use Kind::*;
    let mut o: Vec<(&'static str, Kind, Obs)> = Vec::with_capacity(8);
    o.push(("collect", Range, ov(g(|| v.collect()))));
    o.push(("collect_dyn", Range, ov(g(|| d.collect_dyn()))));
    o.push(("collect_signed_range(None,None)", Range, ov(g(|| v.collect_signed_range(None, None)))));
    o.push(("collect_signed_range_dyn(None,None)", Range, ov(g(|| d.collect_signed_range_dyn(None, None)))));
    o.push(("for_each", Range, ov(g(|| {
        let mut b = vec![];
        v.for_each(|x| b.push(x));
        b
    }))));
    o.push(("fold", Range, ov(g(|| {
        v.fold(vec![], |mut a: Vec<T>, x| {
            a.push(x);
            a
        })
    }))));
    o
}

/// Point reads at `i`.
fn point_paths<T: Enc, V: ReadableVec<usize, T>>(v: &V, i: usize) -> Vec<(&'static str, Kind, Obs)> {
    let d: &dyn ReadableVec<usize, T> = v;
    vec![
        ("collect_one_at", Kind::Range, op1(g(|| v.collect_one_at(i)))),
        ("collect_one", Kind::Range, op1(g(|| d.collect_one(i)))),
        ("Cursor::get", Kind::Cursor, gc(v, |w| Cursor::new(w).get(i), op1)),
    ]
}

// ───────────────────────────── sources ─────────────────────────────

#[derive(Clone, Copy, PartialEq, Eq, Hash, Debug)]
enum Fmt {
    Bytes,
    Pco,
}
const VARIANTS: [(Fmt, bool, &str); 4] =
    [(Fmt::Bytes, false, "bytes"), (Fmt::Pco, false, "pco"), (Fmt::Bytes, true, "bytes+grow"), (Fmt::Pco, true, "pco+grow")];

trait Tab: PcoVecValue {
    fn of(u: u64) -> Self;
}
impl Tab for u64 {
    fn of(u: u64) -> Self {
        u
    }
}
impl Tab for u32 {
    fn of(u: u64) -> Self {
        u as u32
    }
}

enum Stored<S: PcoVecValue> {
    B(BytesVec<usize, S>),
    P(PcoVec<usize, S>),
}
impl<S: PcoVecValue> Stored<S> {
    fn create(db: &Database, name: &str, fmt: Fmt) -> Self {
        let o: ImportOptions = (db, name, Version::new(1)).into();
        match fmt {
            Fmt::Bytes => Stored::B(BytesVec::forced_import_with(o).expect("import bytes")),
            Fmt::Pco => Stored::P(PcoVec::forced_import_with(o).expect("import pco")),
        }
    }
    fn push(&mut self, x: S) {
        match self {
            Stored::B(v) => v.push(x),
            Stored::P(v) => v.push(x),
        }
    }
    fn flush(&mut self) {
        match self {
            Stored::B(v) => v.flush().expect("flush"),
            Stored::P(v) => v.flush().expect("flush"),
        }
    }
    fn write(&mut self) {
        match self {
            Stored::B(v) => v.write().map(|_| ()).expect("write"),
            Stored::P(v) => v.write().map(|_| ()).expect("write"),
        }
    }
    fn boxed(&self) -> ReadableBoxedVec<usize, S> {
        match self {
            Stored::B(v) => v.read_only_boxed_clone(),
            Stored::P(v) => v.read_only_boxed_clone(),
        }
    }
}

/// A source handed to a lazy-vector constructor; `finish` performs the deferred growth.
struct Src<S: PcoVecValue> {
    stored: Option<Stored<S>>,
    boxed: ReadableBoxedVec<usize, S>,
    pending: Option<S>,
}
impl<S: PcoVecValue> Src<S> {
    fn finish(&mut self) {
        if let (Some(x), Some(st)) = (self.pending.take(), self.stored.as_mut()) {
            st.push(x);
            st.write();
        }
    }
}

struct Env {
    perm: Option<(Database, Scratch)>,
    cache: HashMap<(TypeId, Fmt, usize, usize), Box<dyn Any>>,
    keep: Vec<Box<dyn Any>>,
    tmp: Option<(Database, Scratch)>,
    tmp_n: usize,
    ctr: u64,
}
fn open_db(tag: &str) -> (Database, Scratch) {
    let s = Scratch::new(tag);
    (Database::open(s.path()).expect("open db"), s)
}
impl Env {
    fn new() -> Self {
        Env { perm: Some(open_db("lazyp")), cache: HashMap::new(), keep: vec![], tmp: None, tmp_n: 0, ctr: 0 }
    }
    /// call between cases (no live handles into the temporary database)
    fn recycle(&mut self) {
        if self.tmp_n > 256 {
            self.tmp = None;
            self.tmp_n = 0;
        }
    }
    fn table<S: Tab>(tab: usize, len: usize) -> Vec<S> {
        assert!(len <= 6, "source length {len} > 6: extend TABLES");
        TABLES[tab][..len].iter().map(|x| S::of(*x)).collect()
    }
    /// Source `tab` of length `len`. grow=false: a flushed vector (cached). grow=true: a fresh vector holding
    /// len-1 flushed elements; the last one is pushed + written by `Src::finish` after the lazy vector exists.
    fn src<S: Tab>(&mut self, fmt: Fmt, grow: bool, tab: usize, len: usize) -> Src<S> {
        let vals = Self::table::<S>(tab, len);
        if !grow || len == 0 {
            let key = (TypeId::of::<S>(), fmt, tab, len);
            if !self.cache.contains_key(&key) {
                self.ctr += 1;
                let mut st = Stored::<S>::create(&self.perm.as_ref().unwrap().0, &format!("p{}", self.ctr), fmt);
                vals.iter().for_each(|x| st.push(*x));
                st.flush();
                self.cache.insert(key, Box::new(st.boxed()));
                self.keep.push(Box::new(st));
            }
            let b = self.cache[&key].downcast_ref::<ReadableBoxedVec<usize, S>>().unwrap().clone();
            return Src { stored: None, boxed: b, pending: None };
        }
        if self.tmp.is_none() {
            self.tmp = Some(open_db("lazyt"));
        }
        self.tmp_n += 1;
        self.ctr += 1;
        let mut st = Stored::<S>::create(&self.tmp.as_ref().unwrap().0, &format!("t{}", self.ctr), fmt);
        vals[..len - 1].iter().for_each(|x| st.push(*x));
        st.flush();
        let b = st.boxed();
        Src { stored: Some(st), boxed: b, pending: Some(vals[len - 1]) }
    }
}
impl Drop for Env {
    fn drop(&mut self) {
        self.cache.clear();
        self.keep.clear();
        self.tmp = None;
        self.perm = None;
    }
}

// ───────────────────────────── judging ─────────────────────────────

struct Dev {
    path: String,
    what: &'static str,
    got: Obs,
    want: Obs,
    model_impl: Obs,
    known: bool,
}
#[derive(Default)]
struct Sink {
    reads: u64,
    devs: Vec<Dev>,
}
impl Sink {
    /// `impls`: what the as-is model allows for this path (first entry is reported)
    fn judge(&mut self, path: String, got: Obs, def: Obs, impls: &[Obs]) {
        self.reads += 1;
        if got == def {
            return;
        }
        let known = impls.iter().any(|i| *i == got && *i != def);
        let what = match (&got, &def) {
            (Obs::Panic, _) => "panic",
            (Obs::Hang, _) => "does not terminate",
            (_, Obs::Panic) => "no panic although the formula predicts one",
            (Obs::Vals(v), _) if v == &vec![NEVER] => "buffer not appended to",
            _ => "value",
        };
        self.devs.push(Dev { path, what, got, want: def, model_impl: impls.first().cloned().unwrap_or(Obs::Vals(vec![])), known });
    }
    fn setup_panic(&mut self, path: &str) {
        self.reads += 1;
        self.devs.push(Dev { path: path.into(), what: "panic", got: Obs::Panic, want: Obs::Vals(vec![]), model_impl: Obs::Vals(vec![]), known: false });
    }
}

struct Exp {
    def_range: Option<Vec<i64>>,
    impl_range: Option<Vec<i64>>,
    def_one: BTreeMap<usize, i64>,
    impl_one: BTreeMap<usize, i64>,
    def_sorted: Option<Vec<i64>>,
    impl_sorted: Option<Vec<i64>>,
    /// length the governing sources give the vector
    gov_len: usize,
    /// the as-is model predicts a panic for some index of this configuration (cursor paths touch all of them)
    cfg_panic: bool,
    from: usize,
    to: usize,
    idx: Vec<usize>,
    imax: usize,
}

fn arr(v: &Value) -> Option<Vec<i64>> {
    v.as_array().map(|a| a.iter().map(|x| x.as_i64().expect("integer")).collect())
}
fn onemap(v: &Value) -> BTreeMap<usize, i64> {
    v.as_object().map(|o| o.iter().map(|(k, x)| (k.parse::<usize>().expect("index key"), x.as_i64().expect("integer"))).collect()).unwrap_or_default()
}

/// All checks of one case on one lazy vector. Returns what `len()` said.
fn check_vec<T: Enc, V: ReadableVec<usize, T>>(v: &V, e: &Exp, sorted_kind: Kind, sink: &mut Sink) -> Option<usize> {
    let len = g(|| v.len());
    let impls = |k: Kind, ir: &[i64]| -> Vec<Obs> {
        let mut a = vec![want(k, ir)];
        if k == Kind::Cursor && e.cfg_panic {
            a.push(Obs::Panic);
        }
        a
    };
    if let (Some(dr), Some(ir)) = (&e.def_range, &e.impl_range) {
        for (p, k, got) in range_paths::<T, V>(v, e.from, e.to, sorted_kind) {
            sink.judge(p.into(), got, want(k, dr), &impls(k, ir));
        }
        if e.from == 0 && e.to >= e.gov_len {
            // def.range is the whole expected contents
            for (p, k, got) in full_paths::<T, V>(v) {
                sink.judge(p.into(), got, want(k, dr), &impls(k, ir));
            }
            if len == Some(e.gov_len) {
                let d: &dyn ReadableVec<usize, T> = v;
                let none = T::enc_point(None);
                // point reads: predictions come from `one` when the model gives them, else from the full range
                let pick = |m: &BTreeMap<usize, i64>, r: &[i64], i: Option<usize>| -> Vec<i64> {
                    vec![i.and_then(|i| m.get(&i).copied().or_else(|| r.get(i).copied())).unwrap_or(none)]
                };
                let last = e.gov_len.checked_sub(1);
                let first = last.map(|_| 0);
                sink.judge("collect_first".into(), op1(g(|| d.collect_first())), want(Kind::Range, &pick(&e.def_one, dr, first)), &[want(Kind::Range, &pick(&e.impl_one, ir, first))]);
                sink.judge("collect_last".into(), op1(g(|| d.collect_last())), want(Kind::Range, &pick(&e.def_one, dr, last)), &[want(Kind::Range, &pick(&e.impl_one, ir, last))]);
            }
        }
        let none = T::enc_point(None);
        for i in 0..=e.imax {
            let dv = match e.def_one.get(&i) {
                Some(x) => *x,
                None if i >= e.gov_len => none,
                None => continue,
            };
            let iv = e.impl_one.get(&i).copied().unwrap_or(dv);
            for (p, k, got) in point_paths::<T, V>(v, i) {
                sink.judge(format!("{p}({i})"), got, want(k, &[dv]), &impls(k, &[iv]));
            }
        }
    }
    if let (Some(ds), Some(is)) = (&e.def_sorted, &e.impl_sorted) {
        let d: &dyn ReadableVec<usize, T> = v;
        let ix = &e.idx;
        sink.judge("read_sorted_at".into(), ov(g(|| d.read_sorted_at(ix))), want(sorted_kind, ds), &impls(sorted_kind, is));
        sink.judge("read_sorted".into(), ov(g(|| d.read_sorted(ix))), want(sorted_kind, ds), &impls(sorted_kind, is));
        sink.judge(
            "read_sorted_into_at".into(),
            oapp(g(|| {
                let mut b = vec![T::marker(), T::marker()];
                d.read_sorted_into_at(ix, &mut b);
                b
            })),
            want(sorted_kind, ds),
            &impls(sorted_kind, is),
        );
        sink.judge(
            "read_sorted_into".into(),
            oapp(g(|| {
                let mut b = vec![T::marker(), T::marker()];
                d.read_sorted_into(ix, &mut b);
                b
            })),
            want(sorted_kind, ds),
            &impls(sorted_kind, is),
        );
    }
    len
}

// ───────────────────────────── the vectors under test ─────────────────────────────

struct LenReport {
    /// delta only: len() == source len although the mapping is shorter
    mapping_mismatch: bool,
}

fn judge_len(sink: &mut Sink, len: Option<usize>, gov: usize, alt: Option<usize>) -> LenReport {
    let got = match len {
        None => Obs::Panic,
        Some(l) => Obs::Vals(vec![l as i64]),
    };
    if let (Some(l), Some(a)) = (len, alt) {
        if l != gov && l == a {
            sink.reads += 1;
            return LenReport { mapping_mismatch: true };
        }
    }
    sink.judge("len".into(), got, Obs::Vals(vec![gov as i64]), &[]);
    LenReport { mapping_mismatch: false }
}

fn run_delta<S: Tab, T: Enc, Op: DeltaOp<S, T>>(env: &mut Env, fmt: Fmt, grow: bool, n: usize, mp: &[usize], e: &Exp, sink: &mut Sink) -> LenReport {
    let mut s = env.src::<S>(fmt, grow, 0, n);
    let m: Arc<[usize]> = Arc::from(mp.to_vec());
    let b = s.boxed.clone();
    let Some(v) = g(move || LazyDeltaVec::<usize, S, T, Op>::new("delta", Version::new(1), b, Version::new(1), move || m.clone())) else {
        sink.setup_panic("LazyDeltaVec::new");
        return LenReport { mapping_mismatch: false };
    };
    s.finish();
    let len = check_vec::<T, _>(&v, e, Kind::Range, sink);
    let r = judge_len(sink, len, e.gov_len, Some(n));
    // a clone must behave the same
    let c = v.clone();
    if e.def_range.is_some() {
        sink.judge("clone.collect_range_at".into(), ov(g(|| c.collect_range_at(e.from, e.to))), want(Kind::Range, e.def_range.as_ref().unwrap()), &[want(Kind::Range, e.impl_range.as_ref().unwrap())]);
    }
    r
}

fn run_sparse(env: &mut Env, fmt: Fmt, grow: bool, n: usize, mp: &[usize], e: &Exp, sink: &mut Sink) -> LenReport {
    let mut s = env.src::<u64>(fmt, grow, 0, n);
    let m: Arc<[usize]> = Arc::from(mp.to_vec());
    let b = s.boxed.clone();
    let Some(v) = g(move || LazyAggVec::<usize, Option<u64>, usize, usize, u64>::new("sparse", Version::new(1), Version::new(1), b, move || m.clone())) else {
        sink.setup_panic("LazyAggVec::new");
        return LenReport { mapping_mismatch: false };
    };
    s.finish();
    // sorted reads of the aggregation vector are not overridden: they go through a Cursor
    let len = check_vec::<Option<u64>, _>(&v, e, Kind::Cursor, sink);
    let r = judge_len(sink, len, e.gov_len, None);
    let c = v.clone();
    if e.def_range.is_some() {
        sink.judge("clone.collect_range_at".into(), ov(g(|| c.collect_range_at(e.from, e.to))), want(Kind::Range, e.def_range.as_ref().unwrap()), &[want(Kind::Range, e.impl_range.as_ref().unwrap())]);
    }
    r
}

fn run_from2(env: &mut Env, fmt: Fmt, grow: bool, n: usize, m: usize, e: &Exp, sink: &mut Sink) -> LenReport {
    let mut s1 = env.src::<u64>(fmt, grow, 0, n);
    let mut s2 = env.src::<u64>(fmt, grow, 1, m);
    let (b1, b2) = (s1.boxed.clone(), s2.boxed.clone());
    let Some(v) = g(move || LazyVecFrom2::<usize, u64, usize, u64, usize, u64>::init("from2", Version::new(1), b1, b2, |_, a, b| a + b)) else {
        sink.setup_panic("LazyVecFrom2::init");
        return LenReport { mapping_mismatch: false };
    };
    s1.finish();
    s2.finish();
    let len = check_vec::<u64, _>(&v, e, Kind::Range, sink);
    judge_len(sink, len, e.gov_len, None)
}

/// from1 / from2 / from3 over sources of lengths n, m (m for the 2nd and 3rd source): every range, point and sorted
/// read against the elementwise formula on the common prefix.
fn sweep(env: &mut Env, which: u8, fmt: Fmt, grow: bool, n: usize, m: usize, sink: &mut Sink) -> Vec<(Value, usize)> {
    let t0 = &TABLES[0];
    let t1 = &TABLES[1];
    let (full, label): (Vec<i64>, &str) = match which {
        1 => ((0..n).map(|i| t0[i] as i64 + 1).collect(), "from1_sweep"),
        2 => ((0..n.min(m)).map(|i| (t0[i] + t1[i]) as i64).collect(), "from2_sweep"),
        _ => ((0..n.min(m)).map(|i| (t0[i] + 2 * t1[i]) as i64).collect(), "from3_sweep"),
    };
    let mut s1 = env.src::<u64>(fmt, grow, 0, n);
    let mut s2 = env.src::<u64>(fmt, grow, 1, m);
    let mut s3 = env.src::<u64>(fmt, grow, 1, m);
    let (b1, b2, b3) = (s1.boxed.clone(), s2.boxed.clone(), s3.boxed.clone());
    let v: Option<Box<dyn FnMut(&mut Sink, &Exp) -> Option<usize>>> = match which {
        1 => g(move || LazyVecFrom1::<usize, u64, usize, u64>::init("from1", Version::new(1), b1, |_, x| x + 1))
            .map(|v| Box::new(move |s: &mut Sink, e: &Exp| check_vec::<u64, _>(&v, e, Kind::Range, s)) as Box<dyn FnMut(&mut Sink, &Exp) -> Option<usize>>),
        2 => g(move || LazyVecFrom2::<usize, u64, usize, u64, usize, u64>::init("from2", Version::new(1), b1, b2, |_, a, b| a + b))
            .map(|v| Box::new(move |s: &mut Sink, e: &Exp| check_vec::<u64, _>(&v, e, Kind::Range, s)) as Box<dyn FnMut(&mut Sink, &Exp) -> Option<usize>>),
        _ => g(move || LazyVecFrom3::<usize, u64, usize, u64, usize, u64, usize, u64>::init("from3", Version::new(1), b1, b2, b3, |_, a, b, c| a + b + c))
            .map(|v| Box::new(move |s: &mut Sink, e: &Exp| check_vec::<u64, _>(&v, e, Kind::Range, s)) as Box<dyn FnMut(&mut Sink, &Exp) -> Option<usize>>),
    };
    let mut marks: Vec<(Value, usize)> = vec![];
    let Some(mut v) = v else {
        sink.setup_panic("init");
        marks.push((json!({"k": label, "n": n, "m": m}), sink.devs.len()));
        return marks;
    };
    s1.finish();
    if which >= 2 {
        s2.finish();
        s3.finish();
    }
    let gov = full.len();
    let top = n.max(m) + 1;
    let one: BTreeMap<usize, i64> = (0..=top).map(|i| (i, full.get(i).copied().unwrap_or(NONE))).collect();
    for from in 0..=top {
        for to in 0..=top {
            let r: Vec<i64> = if from < to.min(gov) { full[from..to.min(gov)].to_vec() } else { vec![] };
            let first = from == 0 && to == 0;
            let e = Exp {
                def_range: Some(r.clone()),
                impl_range: Some(r),
                // point reads once per configuration
                def_one: if first { one.clone() } else { BTreeMap::new() },
                impl_one: BTreeMap::new(),
                def_sorted: None,
                impl_sorted: None,
                gov_len: if from == 0 && to >= gov { gov } else { usize::MAX },
                cfg_panic: false,
                from,
                to,
                idx: vec![],
                imax: if first { top } else { 0 },
            };
            let len = v(sink, &e);
            if from == 0 && to == 0 {
                judge_len(sink, len, gov, None);
            }
            marks.push((json!({"k": label, "n": n, "m": m, "from": from, "to": to}), sink.devs.len()));
        }
    }
    // every ascending index list over 0..=top
    let bits = (top + 1).min(8);
    for mask in 0u32..(1 << bits) {
        let idx: Vec<usize> = (0..bits).filter(|b| mask >> b & 1 == 1).collect();
        let s: Vec<i64> = idx.iter().filter_map(|i| full.get(*i).copied()).collect();
        let e = Exp {
            def_range: None,
            impl_range: None,
            def_one: BTreeMap::new(),
            impl_one: BTreeMap::new(),
            def_sorted: Some(s.clone()),
            impl_sorted: Some(s),
            gov_len: gov,
            cfg_panic: false,
            from: 0,
            to: 0,
            idx: idx.clone(),
            imax: 0,
        };
        v(sink, &e);
        marks.push((json!({"k": label, "n": n, "m": m, "idx": idx}), sink.devs.len()));
    }
    marks
}

// ───────────────────────────── driver ─────────────────────────────

fn cfg_key(c: &Value) -> String {
    let k = c["k"].as_str().unwrap_or("?");
    let k = if k == "delta_sorted" { "delta" } else { k };
    format!("{k}|{}|{}|{}", c["op"], c["n"], c["mp"])
}
fn has_panic(v: &Value) -> bool {
    match v {
        Value::Array(a) => a.iter().any(has_panic),
        Value::Object(o) => o.values().any(has_panic),
        x => x.as_i64() == Some(PANIC),
    }
}
/// "collect_one_at(3)" -> "collect_one_at"; paths without an index argument are kept as they are
fn strip_idx(path: &str) -> String {
    match path.rfind('(') {
        Some(i) if path.ends_with(')') && path[i + 1..path.len() - 1].chars().all(|ch| ch.is_ascii_digit()) && i + 2 < path.len() => path[..i].to_string(),
        _ => path.to_string(),
    }
}
/// smaller = more minimal
fn weight(c: &Value) -> (u64, usize, u64, u64, u64) {
    let mp = c["mp"].as_array().map(|a| a.len()).unwrap_or(0);
    let sum = c["mp"].as_array().map(|a| a.iter().map(|x| x.as_u64().unwrap_or(0)).sum()).unwrap_or(0);
    let (f, t) = (c["from"].as_u64().unwrap_or(0), c["to"].as_u64().unwrap_or(0));
    let span = t.saturating_sub(f) + c["idx"].as_array().map(|a| a.len() as u64).unwrap_or(0);
    (c["n"].as_u64().unwrap_or(0), mp, sum, span, f)
}

/// whether this binary (harness and dependencies share one profile) was built with integer overflow checks
fn overflow_checks_on() -> bool {
    catch_unwind(|| std::hint::black_box(255u8) + std::hint::black_box(1u8)).is_err()
}

pub fn main(args: &[String]) -> i32 {
    let t_start = std::time::Instant::now();
    let f = parse_flags(args);
    let input = f.get("in").expect("--in");
    let all = f.contains_key("all");
    // --dump FILE: every violation as one ndjson line (for diffing runs, e.g. overflow checks on / off)
    let dump = std::cell::RefCell::new(f.get("dump").map(|p| std::io::BufWriter::new(std::fs::File::create(p).expect("create dump"))));
    let max_v: usize = f.get("max-violations").map(|x| x.parse().expect("number")).unwrap_or(5);
    let rd = std::io::BufReader::new(std::fs::File::open(input).expect("open input"));
    let objs: Vec<Value> = rd.lines().map(|l| l.unwrap()).filter(|l| !l.trim().is_empty()).map(|l| serde_json::from_str(&l).expect("json")).collect();
    // pre-pass: configurations for which the as-is model predicts a panic somewhere
    let panic_cfgs: HashSet<String> = objs.iter().filter(|o| has_panic(&o["impl"])).map(|o| cfg_key(&o["case"])).collect();

    let mut env = Env::new();
    let mut cases = 0u64;
    let mut reads = 0u64;
    let mut nontrivial: BTreeSet<u64> = BTreeSet::new();
    let mut known: BTreeMap<String, (u64, BTreeSet<u64>, Value)> = BTreeMap::new();
    // breakdown of the known deviations: "<path>: <what>" -> reads
    let known_how: std::cell::RefCell<BTreeMap<String, u64>> = Default::default();
    let mut len_mismatch = 0u64;
    let mut violations: Vec<Value> = vec![];
    let mut viol_total = 0u64;
    let mut viol_cases: BTreeSet<u64> = BTreeSet::new();
    let mut classes: BTreeMap<String, (u64, Value, Value)> = BTreeMap::new();
    let mut panics_seen = 0u64;
    let mut by_kind: BTreeMap<String, u64> = BTreeMap::new();
    let mut sweeps_done: HashSet<(u8, usize, usize)> = HashSet::new();
    let mut sweep_cfgs = 0u64;

    let record = |case: &Value, variant: &str, d: Dev, violations: &mut Vec<Value>, viol_total: &mut u64, classes: &mut BTreeMap<String, (u64, Value, Value)>, known: &mut BTreeMap<String, (u64, BTreeSet<u64>, Value)>, viol_cases: &mut BTreeSet<u64>| {
        let h = fnv(&case.to_string());
        if d.known {
            let e = known.entry("D10".into()).or_insert((0, BTreeSet::new(), case.clone()));
            e.0 += 1;
            e.1.insert(h);
            let p = strip_idx(&d.path);
            *known_how.borrow_mut().entry(format!("{}: {}", p, d.what)).or_insert(0) += 1;
            if weight(case) < weight(&e.2) {
                e.2 = case.clone();
            }
            return;
        }
        *viol_total += 1;
        viol_cases.insert(h);
        let v = json!({"case": case, "variant": variant, "path": d.path, "what": d.what, "got": d.got.json(), "want": d.want.json(), "model_impl": d.model_impl.json()});
        // class: kind/op + path without its index argument + what
        let p = strip_idx(&d.path);
        let cls = format!("{}:{}:{}:{}", case["k"].as_str().unwrap_or("?"), case["op"].as_str().unwrap_or("-"), p, d.what);
        let e = classes.entry(cls).or_insert((0, case.clone(), v.clone()));
        e.0 += 1;
        if weight(case) < weight(&e.1) {
            e.1 = case.clone();
            e.2 = v.clone();
        }
        if let Some(w) = dump.borrow_mut().as_mut() {
            writeln!(w, "{}", v).unwrap();
        }
        if violations.len() < max_v {
            violations.push(v);
        }
    };

    'outer: for o in &objs {
        let c = &o["case"];
        let k = c["k"].as_str().expect("case.k");
        let n = c["n"].as_u64().expect("case.n") as usize;
        let mp: Vec<usize> = c["mp"].as_array().expect("case.mp").iter().map(|x| x.as_u64().unwrap() as usize).collect();
        let op = c["op"].as_str().unwrap_or("-");
        let from = c["from"].as_u64().unwrap_or(0) as usize;
        let to = c["to"].as_u64().unwrap_or(0) as usize;
        let idx: Vec<usize> = c["idx"].as_array().map(|a| a.iter().map(|x| x.as_u64().unwrap() as usize).collect()).unwrap_or_default();
        let gov_len = match k {
            "delta" | "delta_sorted" => n.min(mp.len()),
            "sparse" => mp.len(),
            "from2" => n.min(mp[0]),
            other => panic!("case kind {other}"),
        };
        let e = Exp {
            def_range: arr(&o["def"]["range"]),
            impl_range: arr(&o["impl"]["range"]),
            def_one: onemap(&o["def"]["one"]),
            impl_one: onemap(&o["impl"]["one"]),
            def_sorted: arr(&o["def"]["sorted"]),
            impl_sorted: arr(&o["impl"]["sorted"]),
            gov_len,
            cfg_panic: panic_cfgs.contains(&cfg_key(c)),
            from,
            to,
            idx,
            imax: n.max(mp.len()).max(3) + 1,
        };
        cases += 1;
        *by_kind.entry(format!("{k}/{op}")).or_insert(0) += 1;
        if n >= 2 && !mp.is_empty() {
            nontrivial.insert(fnv(&c.to_string()));
        }
        let mut mismatch = false;
        for (fmt, grow, vname) in VARIANTS {
            let all_empty = n == 0 && (k != "from2" || mp[0] == 0);
            if grow && all_empty {
                continue;
            }
            env.recycle();
            let mut sink = Sink::default();
            let r = match (k, op) {
                ("delta" | "delta_sorted", "sub") => run_delta::<u64, u64, DeltaSub>(&mut env, fmt, grow, n, &mp, &e, &mut sink),
                ("delta" | "delta_sorted", "change") => run_delta::<u32, f64, DeltaChange>(&mut env, fmt, grow, n, &mp, &e, &mut sink),
                ("sparse", _) => run_sparse(&mut env, fmt, grow, n, &mp, &e, &mut sink),
                ("from2", _) => run_from2(&mut env, fmt, grow, n, mp[0], &e, &mut sink),
                (a, b) => panic!("case kind {a}/{b}"),
            };
            mismatch |= r.mapping_mismatch;
            reads += sink.reads;
            for d in sink.devs {
                if d.got == Obs::Panic {
                    panics_seen += 1;
                }
                record(c, vname, d, &mut violations, &mut viol_total, &mut classes, &mut known, &mut viol_cases);
            }
        }
        if mismatch {
            len_mismatch += 1;
        }
        // one-, two- and three-source transforms: full sweep, once per configuration
        let mut todo: Vec<(u8, usize, usize)> = vec![(1, n, 0)];
        if k == "from2" {
            todo.push((2, n, mp[0]));
            todo.push((3, n, mp[0]));
        }
        for (w, a, b) in todo {
            if !sweeps_done.insert((w, a, b)) {
                continue;
            }
            sweep_cfgs += 1;
            for (fmt, grow, vname) in VARIANTS {
                if grow && a == 0 && (w == 1 || b == 0) {
                    continue;
                }
                env.recycle();
                let mut sink = Sink::default();
                let marks = sweep(&mut env, w, fmt, grow, a, b, &mut sink);
                reads += sink.reads;
                let mut mi = 0;
                for (di, d) in sink.devs.into_iter().enumerate() {
                    while mi + 1 < marks.len() && di >= marks[mi].1 {
                        mi += 1;
                    }
                    if d.got == Obs::Panic {
                        panics_seen += 1;
                    }
                    let case = marks.get(mi).map(|m| m.0.clone()).unwrap_or(json!({"k": "sweep"}));
                    record(&case, vname, d, &mut violations, &mut viol_total, &mut classes, &mut known, &mut viol_cases);
                }
            }
        }
        if !all && violations.len() >= max_v {
            break 'outer;
        }
    }
    drop(env);
    let mut out = json!({
        "cases": cases,
        "reads": reads,
        "distinct_nontrivial": nontrivial.len(),
        "known": known.iter().map(|(d, (cnt, cs, ex))| json!({"dev": d, "count": cnt, "cases": cs.len(), "example": ex})).collect::<Vec<_>>(),
        "len_vs_mapping_mismatch": len_mismatch,
        "violations": violations,
        "by_kind": by_kind,
        "variants": VARIANTS.iter().map(|v| v.2).collect::<Vec<_>>(),
        "sweep_configs": sweep_cfgs,
        "panics_observed": panics_seen,
        "overflow_checks": overflow_checks_on(),
        "elapsed_s": (t_start.elapsed().as_secs_f64() * 1000.0).round() / 1000.0,
    });
    if all {
        out["known_breakdown"] = json!(*known_how.borrow());
        out["violation_reads"] = json!(viol_total);
        out["violating_cases"] = json!(viol_cases.len());
        out["violation_classes"] = json!(classes.iter().map(|(k, (cnt, _, ex))| json!({"class": k, "count": cnt, "minimal": ex})).collect::<Vec<_>>());
    }
    writeln!(std::io::stdout(), "{}", out).unwrap();
    if violations.is_empty() { 0 } else { 1 }
}
