//! C11: mine the lock program of every public operation path from the real code.
//! Each scenario prepares a database with a target region "t" and another region "o" (or a target vector),
//! switches the lock tap on, runs ONE public call on a traced thread and records its request/acquired/released
//! events. Lock instances are abstracted to: layout, regions, mmap, file, meta:t, meta:o, meta:x (any other
//! region, e.g. auxiliary regions of a vector), pages:t.
use std::collections::BTreeMap;
use std::io::Write;

use rawdb::verif::locks::{self, LockEvent, Phase};
use rawdb::{Database, PAGE_SIZE};
use serde_json::{Value, json};
use vecdb::{AnyStoredVec, BytesVec, ImportOptions, ImportableVec, PcoVec, ReadableVec, Stamp, StoredVec, Version, WritableVec};

use crate::util::{Scratch, parse_flags};

pub struct Mined {
    pub name: String,
    pub prog: Vec<(String, String, bool)>, // (acq|rel, lock, write)
    pub nested: bool,
}

fn index_tags(db: &Database, target: &[&str], other: &[&str], idx_of: &mut BTreeMap<usize, String>) {
    for r in db.regions().index_to_region().iter().flatten() {
        let id = r.meta().id().to_string();
        let tag = if target.contains(&id.as_str()) { "t" } else if other.contains(&id.as_str()) { "o" } else { "x" };
        idx_of.entry(r.index()).or_insert(tag.to_string());
    }
}

fn abstract_events(ev: &[LockEvent], db: &Database, target: &[&str], other: &[&str], pre: &BTreeMap<usize, String>) -> Vec<(String, String, bool)> {
    // map meta#index -> t / o / x (tags as they were before the call win: a removed region keeps its role)
    let mut idx_of: BTreeMap<usize, String> = pre.clone();
    index_tags(db, target, other, &mut idx_of);
    let mut out = vec![];
    for e in ev {
        if e.thread != 1 {
            continue;
        }
        let lock = if let Some(i) = e.class.strip_prefix("meta#") {
            let i: usize = i.parse().unwrap();
            format!("meta:{}", idx_of.get(&i).cloned().unwrap_or_else(|| "x".into()))
        } else if e.class == "pages" {
            "pages:t".to_string()
        } else {
            e.class.clone()
        };
        match e.phase {
            Phase::Got => out.push(("acq".to_string(), lock, e.write)),
            Phase::Rel => out.push(("rel".to_string(), lock, e.write)),
            Phase::Req => {}
        }
    }
    out
}

fn is_nested(p: &[(String, String, bool)]) -> bool {
    let mut held = 0i32;
    for (k, _, _) in p {
        if k == "acq" {
            if held > 0 {
                return true;
            }
            held += 1;
        } else {
            held -= 1;
        }
    }
    false
}

/// Runs `setup` untraced, then `op` traced, on a fresh database.
fn mine(name: &str, min_len: usize, setup: impl FnOnce(&Database), op: impl FnOnce(&Database), target: &[&str], other: &[&str], out: &mut Vec<Mined>) {
    let scratch = Scratch::new("mine");
    let db = if min_len > 0 { Database::open_with_min_len(scratch.path(), min_len) } else { Database::open(scratch.path()) }.expect("open");
    setup(&db);
    let mut pre = BTreeMap::new();
    index_tags(&db, target, other, &mut pre);
    locks::start(false);
    locks::set_thread(1);
    let r = std::panic::catch_unwind(std::panic::AssertUnwindSafe(|| op(&db)));
    locks::set_thread(0);
    let ev = locks::stop();
    if r.is_err() {
        eprintln!("scenario {name} panicked");
        return;
    }
    let prog = abstract_events(&ev, &db, target, other, &pre);
    let nested = is_nested(&prog);
    out.push(Mined { name: name.to_string(), prog, nested });
}

fn page(n: usize) -> Vec<u8> {
    vec![7u8; n]
}

pub fn mine_all() -> Vec<Mined> {
    let mut out = vec![];
    let two = |db: &Database| {
        let t = db.create_region_if_needed("t").unwrap();
        let o = db.create_region_if_needed("o").unwrap();
        t.write(&page(100)).unwrap();
        o.write(&page(100)).unwrap();
        db.flush().unwrap();
    };
    // a layout where t is followed by o (t is not last): growth of t must relocate or use an adjacent hole
    let t_then_o = two;
    // a layout where t is last
    let o_then_t = |db: &Database| {
        let o = db.create_region_if_needed("o").unwrap();
        let t = db.create_region_if_needed("t").unwrap();
        t.write(&page(100)).unwrap();
        o.write(&page(100)).unwrap();
        db.flush().unwrap();
    };
    let big = 1 << 20; // beyond the initial 1 MiB file: forces file growth

    mine("create", 0, |db| { db.create_region_if_needed("o").unwrap(); }, |db| { db.create_region_if_needed("t").unwrap(); }, &["t"], &["o"], &mut out);
    mine("create_existing", 0, two, |db| { db.create_region_if_needed("t").unwrap(); }, &["t"], &["o"], &mut out);
    mine("create_grow_file", PAGE_SIZE, |db| { db.create_region_if_needed("o").unwrap(); }, |db| { db.create_region_if_needed("t").unwrap(); }, &["t"], &["o"], &mut out);
    mine("write_fits", 0, two, |db| { db.get_region("t").unwrap().write(&page(10)).unwrap(); }, &["t"], &["o"], &mut out);
    mine("write_fits_same_len", 0, two, |db| { db.get_region("t").unwrap().write_at(&page(10), 0).unwrap(); }, &["t"], &["o"], &mut out);
    mine("write_last", 0, o_then_t, |db| { db.get_region("t").unwrap().write(&page(5000)).unwrap(); }, &["t"], &["o"], &mut out);
    mine("write_last_grow_file", 0, o_then_t, |db| { db.get_region("t").unwrap().write(&page(big)).unwrap(); }, &["t"], &["o"], &mut out);
    mine("write_reloc_end", 0, t_then_o, |db| { db.get_region("t").unwrap().write(&page(5000)).unwrap(); }, &["t"], &["o"], &mut out);
    mine("write_reloc_end_grow_file", 0, t_then_o, |db| { db.get_region("t").unwrap().write(&page(big)).unwrap(); }, &["t"], &["o"], &mut out);
    mine("write_adjacent_hole", 0, |db| {
        let t = db.create_region_if_needed("t").unwrap();
        let h = db.create_region_if_needed("h").unwrap();
        let o = db.create_region_if_needed("o").unwrap();
        t.write(&page(100)).unwrap(); h.write(&page(100)).unwrap(); o.write(&page(100)).unwrap();
        db.flush().unwrap();
        drop(h);
        db.remove_region("h").unwrap();
        db.flush().unwrap();
    }, |db| { db.get_region("t").unwrap().write(&page(5000)).unwrap(); }, &["t"], &["o"], &mut out);
    mine("write_reloc_hole", 0, |db| {
        let h = db.create_region_if_needed("h").unwrap();
        let t = db.create_region_if_needed("t").unwrap();
        let o = db.create_region_if_needed("o").unwrap();
        h.write(&page(5000)).unwrap(); // h relocates to the end (2 pages), leaving a hole at 0 after flush
        t.write(&page(100)).unwrap(); o.write(&page(100)).unwrap();
        db.flush().unwrap();
        drop(h);
        db.remove_region("h").unwrap();
        db.flush().unwrap();
    }, |db| { db.get_region("t").unwrap().write(&page(5000)).unwrap(); }, &["t"], &["o"], &mut out);
    mine("truncate", 0, two, |db| { db.get_region("t").unwrap().truncate(10).unwrap(); }, &["t"], &["o"], &mut out);
    mine("truncate_write", 0, two, |db| { db.get_region("t").unwrap().truncate_write(10, &page(10)).unwrap(); }, &["t"], &["o"], &mut out);
    mine("rename", 0, two, |db| { db.get_region("t").unwrap().rename("t2").unwrap(); }, &["t", "t2"], &["o"], &mut out);
    mine("remove", 0, two, |db| { db.remove_region("t").unwrap(); }, &["t"], &["o"], &mut out);
    mine("retain", 0, two, |db| { db.retain_regions(["o".to_string()].into_iter().collect()).unwrap(); }, &["t"], &["o"], &mut out);
    mine("region_flush_data", 0, |db| { two(db); db.get_region("t").unwrap().write(&page(10)).unwrap(); }, |db| { db.get_region("t").unwrap().flush().unwrap(); }, &["t"], &["o"], &mut out);
    mine("region_flush_clean", 0, two, |db| { db.get_region("t").unwrap().flush().unwrap(); }, &["t"], &["o"], &mut out);
    mine("db_flush_dirty", 0, |db| { two(db); db.get_region("t").unwrap().write(&page(10)).unwrap(); }, |db| { db.flush().unwrap(); }, &["t"], &["o"], &mut out);
    mine("db_flush_clean", 0, two, |db| { db.flush().unwrap(); }, &["t"], &["o"], &mut out);
    mine("compact", 0, |db| {
        two(db);
        let h = db.create_region_if_needed("h").unwrap();
        h.write(&page(100)).unwrap();
        db.get_region("t").unwrap().write(&page(10)).unwrap();
        db.flush().unwrap();
        drop(h);
        db.remove_region("h").unwrap();
    }, |db| { db.compact().unwrap(); }, &["t"], &["o"], &mut out);
    mine("reader", 0, two, |db| { let r = db.get_region("t").unwrap().create_reader(); let _ = r.read_all().len(); drop(r); }, &["t"], &["o"], &mut out);
    mine("set_min_len_grow", 0, two, |db| { db.set_min_len(4 << 20).unwrap(); }, &["t"], &["o"], &mut out);
    mine("set_min_regions", 0, two, |db| { db.set_min_regions(300).unwrap(); }, &["t"], &["o"], &mut out);
    mine("disk_usage", 0, two, |db| { let _ = db.disk_usage(); }, &["t"], &["o"], &mut out);

    // ---- vectors: the target vector's data region is "t", its auxiliary regions count as "x"
    fn raw_vec(db: &Database, k: u16) -> BytesVec<usize, u32> {
        let o: ImportOptions = (db, "v", Version::ONE).into();
        BytesVec::forced_import_with(o.with_saved_stamped_changes(k)).unwrap()
    }
    fn cmp_vec(db: &Database, k: u16) -> PcoVec<usize, u32> {
        let o: ImportOptions = (db, "v", Version::ONE).into();
        PcoVec::forced_import_with(o.with_saved_stamped_changes(k)).unwrap()
    }
    let vt: [&str; 1] = ["v/usize"];
    let vo: [&str; 1] = ["o"];
    macro_rules! vmine {
        ($name:expr, $mk:ident, $k:expr, $setup:expr, $op:expr) => {{
            let scratch = Scratch::new("minev");
            let db = Database::open(scratch.path()).expect("open");
            let o = db.create_region_if_needed("o").unwrap();
            o.write(&page(100)).unwrap();
            let mut v = $mk(&db, $k);
            ($setup)(&mut v, &db);
            locks::start(false);
            locks::set_thread(1);
            let r = std::panic::catch_unwind(std::panic::AssertUnwindSafe(|| ($op)(&mut v, &db)));
            locks::set_thread(0);
            let ev = locks::stop();
            if r.is_ok() {
                let prog = abstract_events(&ev, &db, &vt, &vo, &BTreeMap::new());
                let nested = is_nested(&prog);
                out.push(Mined { name: $name.to_string(), prog, nested });
            } else {
                eprintln!("scenario {} panicked", $name);
            }
        }};
    }
    vmine!("raw_write_push", raw_vec, 0, |v: &mut BytesVec<usize, u32>, db: &Database| { for i in 0..10 { v.push(i) } v.write().unwrap(); db.flush().unwrap(); for i in 0..10 { v.push(i) } },
        |v: &mut BytesVec<usize, u32>, _db: &Database| { v.write().unwrap(); });
    vmine!("raw_write_push_grow", raw_vec, 0, |v: &mut BytesVec<usize, u32>, db: &Database| { for i in 0..10 { v.push(i) } v.write().unwrap(); db.flush().unwrap(); for i in 0..3000 { v.push(i) } },
        |v: &mut BytesVec<usize, u32>, _db: &Database| { v.write().unwrap(); });
    vmine!("raw_write_updates", raw_vec, 0, |v: &mut BytesVec<usize, u32>, db: &Database| { for i in 0..10 { v.push(i) } v.write().unwrap(); db.flush().unwrap(); v.update_at(3, 9).unwrap(); },
        |v: &mut BytesVec<usize, u32>, _db: &Database| { v.write().unwrap(); });
    vmine!("raw_write_holes", raw_vec, 0, |v: &mut BytesVec<usize, u32>, db: &Database| { for i in 0..10 { v.push(i) } v.write().unwrap(); db.flush().unwrap(); v.delete_at(3); },
        |v: &mut BytesVec<usize, u32>, _db: &Database| { v.write().unwrap(); });
    vmine!("raw_flush", raw_vec, 0, |v: &mut BytesVec<usize, u32>, _db: &Database| { for i in 0..10 { v.push(i) } },
        |v: &mut BytesVec<usize, u32>, _db: &Database| { v.flush().unwrap(); });
    vmine!("raw_collect", raw_vec, 0, |v: &mut BytesVec<usize, u32>, _db: &Database| { for i in 0..10 { v.push(i) } v.write().unwrap(); },
        |v: &mut BytesVec<usize, u32>, _db: &Database| { let _ = v.collect(); });
    vmine!("raw_ro_collect", raw_vec, 0, |v: &mut BytesVec<usize, u32>, _db: &Database| { for i in 0..10 { v.push(i) } v.write().unwrap(); },
        |v: &mut BytesVec<usize, u32>, _db: &Database| { let ro = v.read_only_clone(); let _ = ro.collect(); });
    vmine!("raw_fold_stored_io", raw_vec, 0, |v: &mut BytesVec<usize, u32>, _db: &Database| { for i in 0..10 { v.push(i) } v.write().unwrap(); },
        |v: &mut BytesVec<usize, u32>, _db: &Database| { let _ = v.fold_stored_io(0, 10, 0u64, |a, x| a + x as u64); });
    vmine!("raw_commit", raw_vec, 2, |v: &mut BytesVec<usize, u32>, _db: &Database| { for i in 0..10 { v.push(i) } },
        |v: &mut BytesVec<usize, u32>, _db: &Database| { v.stamped_write_with_changes(Stamp::new(1)).unwrap(); });
    vmine!("raw_rollback", raw_vec, 2, |v: &mut BytesVec<usize, u32>, _db: &Database| { for i in 0..10 { v.push(i) } v.stamped_write_with_changes(Stamp::new(1)).unwrap(); },
        |v: &mut BytesVec<usize, u32>, _db: &Database| { v.rollback().unwrap(); });
    // compressed: the vector is imported inside the traced section so that its pages lock is registered
    macro_rules! cmine {
        ($name:expr, $n0:expr, $n1:expr, $op:expr) => {{
            let scratch = Scratch::new("minec");
            let db = Database::open(scratch.path()).expect("open");
            let o = db.create_region_if_needed("o").unwrap();
            o.write(&page(100)).unwrap();
            {
                let mut v = cmp_vec(&db, 0);
                for i in 0..$n0 { v.push(i as u32) }
                v.flush().unwrap();
                db.flush().unwrap();
            }
            locks::start(false);
            let mut v = cmp_vec(&db, 0); // registers "pages"
            for i in 0..$n1 { v.push(i as u32) }
            let mark = locks::log_len();
            locks::set_thread(1);
            let r = std::panic::catch_unwind(std::panic::AssertUnwindSafe(|| ($op)(&mut v, &db)));
            locks::set_thread(0);
            let ev = locks::stop();
            if r.is_ok() {
                let prog = abstract_events(&ev[mark..], &db, &vt, &vo, &BTreeMap::new());
                let nested = is_nested(&prog);
                out.push(Mined { name: $name.to_string(), prog, nested });
            } else {
                eprintln!("scenario {} panicked", $name);
            }
        }};
    }
    cmine!("cmp_write_fast", 10, 10, |v: &mut PcoVec<usize, u32>, _db: &Database| { v.write().unwrap(); });
    cmine!("cmp_write_slow_fill_page", 10, 5000, |v: &mut PcoVec<usize, u32>, _db: &Database| { v.write().unwrap(); });
    cmine!("cmp_write_first", 0, 10, |v: &mut PcoVec<usize, u32>, _db: &Database| { v.write().unwrap(); });
    cmine!("cmp_write_many_pages", 10, 300000, |v: &mut PcoVec<usize, u32>, _db: &Database| { v.write().unwrap(); });
    cmine!("cmp_collect", 5000, 0, |v: &mut PcoVec<usize, u32>, _db: &Database| { let _ = v.collect(); });
    cmine!("cmp_ro_collect", 5000, 0, |v: &mut PcoVec<usize, u32>, _db: &Database| { let ro = v.read_only_clone(); let _ = ro.collect(); });
    cmine!("cmp_fold_stored_io", 5000, 0, |v: &mut PcoVec<usize, u32>, _db: &Database| { let _ = v.fold_stored_io(0, 5000, 0u64, |a, x| a + x as u64); });
    cmine!("cmp_flush", 10, 10, |v: &mut PcoVec<usize, u32>, _db: &Database| { v.flush().unwrap(); });
    out
}

pub fn main(args: &[String]) -> i32 {
    let _f = parse_flags(args);
    let mined = mine_all();
    let progs: Vec<Value> = mined.iter().map(|m| json!({"name": m.name, "nested": m.nested,
        "prog": m.prog.iter().map(|(k, l, w)| json!([k, l, if *w { "W" } else { "R" }])).collect::<Vec<_>>()})).collect();
    writeln!(std::io::stdout(), "{}", json!({"programs": progs})).unwrap();
    0
}
