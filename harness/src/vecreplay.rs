//! Spec -> code: replay behaviours emitted by TLC from spec/Vec.tla on the real vecdb vectors and
//! compare, after every step, the property's observable projection (len, elements, deleted slots,
//! stamp) with what the specification demands.
//!
//! Acceptance rule per step (see DESIGN.md §5, §8):
//!   * the call's outcome class must be what the property demands (`must`) and the observation must
//!     equal the reference (`exp`)                                     -> fine
//!   * otherwise, if the behaviour is tagged with known deviations and the real code did exactly what
//!     the as-is model predicts (`impl`, `res`)                        -> known finding
//!   * otherwise                                                        -> violation
use std::collections::BTreeMap;
use std::io::{BufRead, Write};
use std::panic::{AssertUnwindSafe, catch_unwind};

use serde_json::{Value, json};
use vecdb::{
    AnyStoredVec, AnyVec, BytesVec, Database, EagerVec, ImportOptions, ImportableVec, LZ4Vec,
    PcoVec, ReadableVec, Stamp, Version, WritableVec, ZeroCopyVec, ZstdVec,
};

use crate::util::{Scratch, fnv, parse_flags};

pub trait Elem: Copy + PartialEq + PartialOrd + std::fmt::Debug + Send + Sync + 'static {
    fn enc(x: u64, j: u64) -> Self;
    fn dec(self) -> (u64, u64);
    const SIZE: usize;
    /// raw bit pattern (for bit-exact comparison, NaN payloads included)
    fn bits(self) -> u64;
    /// k-th value of a table of extreme / special bit patterns followed by a pseudo-random tail
    fn special(k: u64) -> Self;
}
fn mix(k: u64) -> u64 {
    let mut z = k.wrapping_mul(0x9E3779B97F4A7C15).wrapping_add(0xD1B54A32D192ED03);
    z = (z ^ (z >> 30)).wrapping_mul(0xBF58476D1CE4E5B9);
    z = (z ^ (z >> 27)).wrapping_mul(0x94D049BB133111EB);
    z ^ (z >> 31)
}
const JUNK: u64 = 99; // the model's "value read from outside valid data"
const SHIFT: u64 = 1 << 12; // blocks of up to 4096 elements
macro_rules! elem_int {
    ($($t:ty),*) => {$(
        impl Elem for $t {
            fn enc(x: u64, j: u64) -> Self { (x * SHIFT + j) as $t }
            fn dec(self) -> (u64, u64) { ((self as u64) / SHIFT, (self as u64) % SHIFT) }
            const SIZE: usize = size_of::<$t>();
            fn bits(self) -> u64 { self as u64 }
            fn special(k: u64) -> Self {
                const T: [$t; 10] = [0, 1, <$t>::MAX, <$t>::MIN, <$t>::MAX - 1, (<$t>::MAX / 2), (<$t>::MAX / 2) + 1, 2, <$t>::MIN + 1, 100];
                if k % 3 == 0 { T[((k / 3) % 10) as usize] } else { mix(k) as $t }
            }
        }
    )*};
}
elem_int!(u8, u16, u32, u64, i64, i8, i16, i32);
impl Elem for f64 {
    fn enc(x: u64, j: u64) -> Self {
        (x * SHIFT + j) as f64
    }
    fn dec(self) -> (u64, u64) {
        ((self as u64) / SHIFT, (self as u64) % SHIFT)
    }
    const SIZE: usize = 8;
    fn bits(self) -> u64 {
        self.to_bits()
    }
    fn special(k: u64) -> Self {
        const T: [u64; 14] = [
            0, 0x8000_0000_0000_0000, 0x7FF0_0000_0000_0000, 0xFFF0_0000_0000_0000, // +0 -0 +inf -inf
            0x7FF8_0000_0000_0000, 0x7FF8_0000_0000_0001, 0xFFF8_0000_DEAD_BEEF, 0x7FF0_0000_0000_0001, // quiet / payload / signalling NaNs
            1, 0x000F_FFFF_FFFF_FFFF, 0x0010_0000_0000_0000, 0x7FEF_FFFF_FFFF_FFFF, // subnormals, min normal, max
            0x3FF0_0000_0000_0000, 0xBFF0_0000_0000_0001,
        ];
        if k % 3 == 0 { f64::from_bits(T[((k / 3) % 14) as usize]) } else { f64::from_bits(mix(k)) }
    }
}
impl Elem for f32 {
    fn enc(x: u64, j: u64) -> Self {
        (x * SHIFT + j) as f32
    }
    fn dec(self) -> (u64, u64) {
        ((self as u64) / SHIFT, (self as u64) % SHIFT)
    }
    const SIZE: usize = 4;
    fn bits(self) -> u64 {
        self.to_bits() as u64
    }
    fn special(k: u64) -> Self {
        const T: [u32; 12] = [0, 0x8000_0000, 0x7F80_0000, 0xFF80_0000, 0x7FC0_0000, 0x7FC0_0001, 0xFFC0_BEEF, 0x7F80_0001, 1, 0x007F_FFFF, 0x0080_0000, 0x7F7F_FFFF];
        if k % 3 == 0 { f32::from_bits(T[((k / 3) % 12) as usize]) } else { f32::from_bits(mix(k) as u32) }
    }
}

type R<T> = vecdb::Result<T>;

/// One concrete vector type under test.
pub trait VK: Sized + ReadableVec<usize, <Self as VK>::T> {
    type T: Elem;
    type RO: ReadableVec<usize, <Self as VK>::T>;
    fn ro(&self) -> Self::RO;
    fn boxed(&self) -> vecdb::ReadableBoxedVec<usize, <Self as VK>::T>;
    /// (fold_stored_mmap, fold_stored_io) over [from, to), when the type offers them
    fn stored_scans(&self, _from: usize, _to: usize) -> Option<(Vec<<Self as VK>::T>, Vec<<Self as VK>::T>)> {
        None
    }
    /// CachedVec wrapped around a read-only clone: cold (materialising) pass, then cache-hit pass, then get_at
    fn cached_check(&self, view: &[Option<<Self as VK>::T>], b: usize, rep: &mut crate::reads::ReadReport);
    /// VecReader::try_get(i) (raw formats)
    fn point_read(&self, _i: usize) -> Option<Option<<Self as VK>::T>> {
        None
    }
    const RAW: bool;
    const CMP: bool;
    fn open(db: &Database, name: &str, k: u16, version: u32) -> R<Self>;
    fn push(&mut self, v: Self::T);
    fn cpush(&mut self, i: usize, v: Self::T) -> R<()>;
    fn truncate(&mut self, i: usize) -> R<()>;
    fn update(&mut self, _i: usize, _v: Self::T) -> R<()> {
        unreachable!()
    }
    fn delete(&mut self, _i: usize) {
        unreachable!()
    }
    fn fill(&mut self, _v: Self::T) -> R<usize> {
        unreachable!()
    }
    fn write(&mut self) -> R<bool>;
    fn flush(&mut self) -> R<()>;
    fn commit(&mut self, st: u64) -> R<()>;
    fn swrite(&mut self, st: u64) -> R<()>;
    fn rollback(&mut self) -> R<()>;
    fn rollback_before(&mut self, st: u64) -> R<u64>;
    fn reset(&mut self) -> R<()>;
    fn vlen(&self) -> usize;
    fn view(&self) -> Vec<Option<Self::T>>;
    fn holes(&self) -> Vec<usize>;
    fn stamp(&self) -> u64;
    fn rname(&self) -> String;
}

macro_rules! common_vk {
    () => {
        fn push(&mut self, v: Self::T) {
            WritableVec::push(self, v)
        }
        fn cpush(&mut self, i: usize, v: Self::T) -> R<()> {
            self.checked_push_at(i, v)
        }
        fn truncate(&mut self, i: usize) -> R<()> {
            self.truncate_if_needed_at(i)
        }
        fn write(&mut self) -> R<bool> {
            AnyStoredVec::write(self)
        }
        fn flush(&mut self) -> R<()> {
            AnyStoredVec::flush(self)
        }
        fn commit(&mut self, st: u64) -> R<()> {
            self.stamped_write_with_changes(Stamp::new(st))
        }
        fn swrite(&mut self, st: u64) -> R<()> {
            self.stamped_write_maybe_with_changes(Stamp::new(st), false)
        }
        fn rollback(&mut self) -> R<()> {
            WritableVec::rollback(self)
        }
        fn rollback_before(&mut self, st: u64) -> R<u64> {
            WritableVec::rollback_before(self, Stamp::new(st)).map(u64::from)
        }
        fn reset(&mut self) -> R<()> {
            WritableVec::reset(self)
        }
        fn vlen(&self) -> usize {
            AnyVec::len(self)
        }
        fn stamp(&self) -> u64 {
            u64::from(AnyStoredVec::stamp(self))
        }
        fn rname(&self) -> String {
            AnyStoredVec::region(self).meta().id().to_string()
        }
        fn ro(&self) -> Self::RO {
            vecdb::StoredVec::read_only_clone(self)
        }
        fn boxed(&self) -> vecdb::ReadableBoxedVec<usize, Self::T> {
            vecdb::ReadableCloneableVec::read_only_boxed_clone(self)
        }
        fn cached_check(&self, view: &[Option<Self::T>], b: usize, rep: &mut crate::reads::ReadReport) {
            let c = vecdb::CachedVec::wrap(vecdb::StoredVec::read_only_clone(self));
            let mut cb = 0u64;
            crate::reads::check_reads::<Self::T, _>(&c, "cached.", view, b, true, rep, &mut cb);
            for &i in &crate::reads::boundaries(view.len(), b) {
                rep.calls += 1;
                let want = view.get(i).copied().flatten().map(|x| x.bits());
                match catch_unwind(AssertUnwindSafe(|| c.get_at(i).map(|x| x.bits()))) {
                    Ok(g) if g == want => {}
                    Ok(_) => rep.bad.push(("cached.get_at".into(), i, i + 1, "differs".into())),
                    Err(_) => rep.bad.push(("cached.get_at".into(), i, i + 1, "panicked".into())),
                }
            }
            // a budget that refuses: every read falls through to the inner vector
            let cold = vecdb::CachedVec::wrap_budgeted(vecdb::StoredVec::read_only_clone(self), &crate::reads::REFUSE, std::sync::Arc::new(std::sync::atomic::AtomicU64::new(0)));
            crate::reads::check_reads::<Self::T, _>(&cold, "cached-nobudget.", view, b, true, rep, &mut cb);
        }
        fn open(db: &Database, name: &str, k: u16, version: u32) -> R<Self> {
            let o: ImportOptions = (db, name, Version::new(version)).into();
            Self::forced_import_with(o.with_saved_stamped_changes(k))
        }
    };
}

macro_rules! raw_vk {
    ($ty:ident, $t:ty) => {
        impl VK for $ty<usize, $t> {
            type T = $t;
            type RO = <Self as vecdb::StoredVec>::ReadOnly;
            const RAW: bool = true;
            const CMP: bool = false;
            common_vk!();
            fn stored_scans(&self, from: usize, to: usize) -> Option<(Vec<$t>, Vec<$t>)> {
                Some((self.fold_stored_mmap(from, to, vec![], |mut a, v| { a.push(v); a }),
                      self.fold_stored_io(from, to, vec![], |mut a, v| { a.push(v); a })))
            }
            fn point_read(&self, i: usize) -> Option<Option<$t>> {
                Some(self.reader().try_get(i))
            }
            fn update(&mut self, i: usize, v: $t) -> R<()> {
                self.update_at(i, v)
            }
            fn delete(&mut self, i: usize) {
                self.delete_at(i)
            }
            fn fill(&mut self, v: $t) -> R<usize> {
                self.fill_first_hole_or_push(v)
            }
            fn view(&self) -> Vec<Option<$t>> {
                self.collect_holed().unwrap()
            }
            fn holes(&self) -> Vec<usize> {
                (**self).holes().iter().copied().collect()
            }
        }
    };
}
macro_rules! cmp_vk {
    ($ty:ty, $t:ty, $cmp:expr) => {
        impl VK for $ty {
            type T = $t;
            type RO = <Self as vecdb::StoredVec>::ReadOnly;
            const RAW: bool = false;
            const CMP: bool = $cmp;
            common_vk!();
            fn view(&self) -> Vec<Option<$t>> {
                self.collect().into_iter().map(Some).collect()
            }
            fn holes(&self) -> Vec<usize> {
                vec![]
            }
        }
    };
}
/// a value type whose serialized form differs from its in-memory form (big-endian): `IS_NATIVE_LAYOUT` is false and the raw
/// formats take their per-value serialization branches
#[derive(Debug, Clone, Copy, PartialEq, PartialOrd)]
pub struct Be32(pub u32);
impl vecdb::Bytes for Be32 {
    type Array = [u8; 4];
    fn to_bytes(&self) -> Self::Array {
        self.0.to_be_bytes()
    }
    fn from_bytes(bytes: &[u8]) -> vecdb::Result<Self> {
        let mut a = [0u8; 4];
        a.copy_from_slice(&bytes[..4]);
        Ok(Self(u32::from_be_bytes(a)))
    }
}
impl Elem for Be32 {
    fn enc(x: u64, j: u64) -> Self { Be32(<u32 as Elem>::enc(x, j)) }
    fn dec(self) -> (u64, u64) { self.0.dec() }
    const SIZE: usize = 4;
    fn bits(self) -> u64 { self.0 as u64 }
    fn special(k: u64) -> Self { Be32(<u32 as Elem>::special(k)) }
}
raw_vk!(BytesVec, Be32);
raw_vk!(BytesVec, u32);
raw_vk!(BytesVec, u64);
raw_vk!(BytesVec, u16);
raw_vk!(BytesVec, f64);
raw_vk!(ZeroCopyVec, u32);
raw_vk!(ZeroCopyVec, u64);
cmp_vk!(PcoVec<usize, u32>, u32, true);
cmp_vk!(PcoVec<usize, u64>, u64, true);
cmp_vk!(PcoVec<usize, f64>, f64, true);
cmp_vk!(PcoVec<usize, u16>, u16, true);
cmp_vk!(LZ4Vec<usize, u32>, u32, true);
cmp_vk!(LZ4Vec<usize, u64>, u64, true);
cmp_vk!(ZstdVec<usize, u32>, u32, true);
cmp_vk!(ZstdVec<usize, u64>, u64, true);
cmp_vk!(PcoVec<usize, f32>, f32, true);
cmp_vk!(PcoVec<usize, i64>, i64, true);
cmp_vk!(PcoVec<usize, i32>, i32, true);
cmp_vk!(PcoVec<usize, i16>, i16, true);
cmp_vk!(LZ4Vec<usize, u8>, u8, true);
cmp_vk!(LZ4Vec<usize, f64>, f64, true);
cmp_vk!(LZ4Vec<usize, i64>, i64, true);
cmp_vk!(LZ4Vec<usize, u16>, u16, true);
cmp_vk!(ZstdVec<usize, u8>, u8, true);
cmp_vk!(ZstdVec<usize, f64>, f64, true);
cmp_vk!(ZstdVec<usize, f32>, f32, true);
cmp_vk!(ZstdVec<usize, i16>, i16, true);
cmp_vk!(EagerVec<BytesVec<usize, u32>>, u32, false);
cmp_vk!(EagerVec<PcoVec<usize, u32>>, u32, true);

#[derive(Clone, Debug, PartialEq)]
pub struct Obs {
    pub len: usize,
    pub view: Vec<u64>, // 0 = none
    pub holes: Vec<usize>,
    pub stamp: u64,
    pub bad_block: Option<String>,
}

pub fn obs_to_json(o: &Obs) -> Value {
    json!({"len": o.len, "view": o.view, "holes": o.holes, "stamp": o.stamp, "bad_block": o.bad_block})
}

fn parse_obs(v: &Value) -> Obs {
    Obs {
        len: v["len"].as_u64().unwrap() as usize,
        view: v["view"].as_array().map(|a| a.iter().map(|x| x.as_u64().unwrap()).collect()).unwrap_or_default(),
        holes: v["holes"].as_array().map(|a| a.iter().map(|x| x.as_u64().unwrap() as usize).collect()).unwrap_or_default(),
        stamp: v["stamp"].as_u64().unwrap(),
        bad_block: None,
    }
}

/// Observe the real vector and fold blocks of `b` real elements back into model elements.
pub fn observe<V: VK>(vec: &V, b: usize) -> Obs {
    let len = vec.vlen();
    let view = vec.view();
    let holes = vec.holes();
    let mut bad = None;
    if len % b != 0 || view.len() != len {
        bad = Some(format!("len {} view {} not a multiple of block {}", len, view.len(), b));
    }
    let nb = view.len() / b;
    let mut mv = Vec::with_capacity(nb);
    for k in 0..nb {
        let blk = &view[k * b..(k + 1) * b];
        match blk[0] {
            None => {
                if blk.iter().any(|e| e.is_some()) && bad.is_none() {
                    bad = Some(format!("block {k} partly deleted"));
                }
                mv.push(0);
            }
            Some(first) => {
                let (x, _) = first.dec();
                for (j, e) in blk.iter().enumerate() {
                    match e {
                        Some(e) if e.dec() == (x, j as u64) => {}
                        other => {
                            if bad.is_none() {
                                bad = Some(format!("block {k} element {j}: {:?}, expected value {x}", other));
                            }
                        }
                    }
                }
                mv.push(x);
            }
        }
    }
    let mut mh = Vec::new();
    let mut per_block: BTreeMap<usize, usize> = BTreeMap::new();
    for &h in &holes {
        *per_block.entry(h / b).or_default() += 1;
    }
    for (k, cnt) in per_block {
        if cnt == b {
            mh.push(k);
        } else if bad.is_none() {
            bad = Some(format!("block {k}: {cnt} of {b} slots deleted"));
        }
    }
    Obs { len: if b > 0 { len / b } else { len }, view: mv, holes: mh, stamp: vec.stamp(), bad_block: bad }
}

/// Decode the real page index: (start, bytes, count, raw)
fn real_pages(db: &Database, region_name: &str) -> Option<(Vec<(u64, u32, u32, bool)>, usize)> {
    let pr = db.get_region(&format!("{region_name}_pages"))?;
    let data = db.get_region(region_name)?;
    let bytes = pr.create_reader().read_all().to_vec();
    let mut out = vec![];
    for c in bytes.chunks(16) {
        if c.len() < 16 {
            return Some((vec![(u64::MAX, 0, 0, false)], data.meta().len()));
        }
        let start = u64::from_le_bytes(c[0..8].try_into().unwrap());
        let b = u32::from_le_bytes(c[8..12].try_into().unwrap());
        let v = u32::from_le_bytes(c[12..16].try_into().unwrap());
        out.push((start, b, v & 0x7fff_ffff, v & 0x8000_0000 != 0));
    }
    Some((out, data.meta().len()))
}

/// C07 well-formedness of the on-disk page index, evaluated on the real bytes.
fn pages_well_formed(pages: &[(u64, u32, u32, bool)], region_len: usize, per_page: usize, stored: usize, header: usize) -> Result<(), String> {
    let mut next = header as u64;
    let mut total = 0usize;
    for (i, &(start, bytes, count, raw)) in pages.iter().enumerate() {
        if start != next {
            return Err(format!("page {i} starts at {start}, expected {next} (gap or overlap)"));
        }
        let last = i + 1 == pages.len();
        if !last && count as usize != per_page {
            return Err(format!("page {i} is not the last and holds {count} of {per_page} values"));
        }
        if !last && raw {
            return Err(format!("page {i} is not the last but stored uncompressed"));
        }
        if count == 0 || count as usize > per_page {
            return Err(format!("page {i} holds {count} values"));
        }
        next = start + bytes as u64;
        total += count as usize;
    }
    if total != stored {
        return Err(format!("page counts add up to {total}, stored length is {stored}"));
    }
    if region_len != next as usize && !(pages.is_empty() && region_len <= header) {
        return Err(format!("data region ends at {region_len}, last page ends at {next}"));
    }
    Ok(())
}

enum Out {
    Ok,
    Err(String),
    Panic,
}
impl Out {
    fn class(&self) -> &'static str {
        match self {
            Out::Ok => "ok",
            Out::Err(_) => "err",
            Out::Panic => "panic",
        }
    }
}

struct Cfg {
    reads: bool,
    special: bool,
    k: u16,
    block: usize,
    check_pages: bool,
    per_page_real: usize,
}

#[derive(Default)]
struct Stats {
    behaviours: u64,
    steps: u64,
    nontrivial: std::collections::BTreeSet<u64>,
    known: BTreeMap<String, (u64, Value)>,
    cut_permitted: u64,
    violations: Vec<Value>,
    ops: BTreeMap<String, u64>,
    pages_checked: u64,
    pages_equal_model: u64,
    pages_differ_model: u64,
    read_calls: u64,
    read_states: u64,
    accesses: u64,
    stale_readers: u64,
}

fn run_one<V: VK>(steps: &[Value], cfg: &Cfg, st: &mut Stats, bidx: usize) {
    // behaviours are independent runs: registrations of readers that an earlier behaviour left behind (a reader dropped
    // on another thread, or never dropped) must not be matched against this behaviour's mapping
    st.stale_readers += rawdb::verif::access_tap_reset_thread() as u64;
    // accesses recorded while the previous behaviour was torn down (after its last verdict) belong to that behaviour
    if cfg.reads { let _ = rawdb::verif::access_tap_take(); }
    let scratch = Scratch::new("vec");
    let name = "v";
    let mut db = Some(Database::open(scratch.path()).expect("open db"));
    let mut vec: Option<V> = Some(V::open(db.as_ref().unwrap(), name, cfg.k, 1).expect("create vec"));
    let b = cfg.block;
    let mut prev = observe(vec.as_ref().unwrap(), b);
    let mut nontrivial = false;
    let mut after_rollback = false;
    for (si, step) in steps.iter().enumerate() {
        let op = step["op"].as_str().unwrap();
        let args: Vec<u64> = step["args"].as_array().map(|a| a.iter().map(|x| x.as_u64().unwrap()).collect()).unwrap_or_default();
        *st.ops.entry(op.to_string()).or_default() += 1;
        st.steps += 1;
        if after_rollback && !op.starts_with("rollback") {
            nontrivial = true;
        }
        if op.starts_with("rollback") || op == "reimport" || op == "reset" {
            after_rollback = true;
        }
        let vr = vec.as_mut().unwrap();
        let out = catch_unwind(AssertUnwindSafe(|| -> R<()> {
            match op {
                "push" => {
                    for j in 0..b {
                        vr.push(V::T::enc(args[0], j as u64));
                    }
                    Ok(())
                }
                "cpush" => {
                    for j in 0..b {
                        vr.cpush(args[0] as usize * b + j, V::T::enc(args[1], j as u64))?;
                    }
                    Ok(())
                }
                "truncate" => vr.truncate(args[0] as usize * b),
                "update" => {
                    for j in 0..b {
                        vr.update(args[0] as usize * b + j, V::T::enc(args[1], j as u64))?;
                    }
                    Ok(())
                }
                "delete" => {
                    for j in 0..b {
                        vr.delete(args[0] as usize * b + j);
                    }
                    Ok(())
                }
                "fill" => {
                    for j in 0..b {
                        vr.fill(V::T::enc(args[0], j as u64))?;
                    }
                    Ok(())
                }
                "write" => vr.write().map(|_| ()),
                "commit" => vr.commit(args[0]),
                "swrite" => vr.swrite(args[0]),
                "rollback" => vr.rollback(),
                "rollback_before" => vr.rollback_before(args[0]).map(|_| ()),
                "reset" => vr.reset(),
                "reimport" => vr.flush(),
                "fault_delete" | "fault_corrupt" => Ok(()),
                other => panic!("unknown op {other}"),
            }
        }));
        let mut out = match out {
            Ok(Ok(())) => Out::Ok,
            Ok(Err(e)) => Out::Err(format!("{e:?}")),
            Err(_) => Out::Panic,
        };
        // faults act on the change directory of the real vector
        if op == "fault_delete" || op == "fault_corrupt" {
            let dir = scratch.path().join("changes").join(vr.rname());
            let f = dir.join(args[0].to_string());
            if op == "fault_delete" {
                std::fs::remove_file(&f).expect("fault: record file present");
            } else {
                let bytes = std::fs::read(&f).expect("fault: record file present");
                // truncate the record at a byte offset chosen from the behaviour index: every offset over a run
                let cut = if bytes.is_empty() { 0 } else { (bidx * 7 + si) % bytes.len() };
                std::fs::write(&f, &bytes[..cut]).unwrap();
            }
        }
        if op == "reimport" && matches!(out, Out::Ok) {
            // flush the database, drop everything, reopen from the files
            let r = catch_unwind(AssertUnwindSafe(|| -> R<V> {
                db.as_ref().unwrap().flush()?;
                drop(vec.take());
                drop(db.take());
                let ndb = Database::open(scratch.path())?;
                let nv = V::open(&ndb, name, cfg.k, 1);
                db = Some(ndb);
                nv
            }));
            match r {
                Ok(Ok(nv)) => vec = Some(nv),
                Ok(Err(e)) => out = Out::Err(format!("reimport: {e:?}")),
                Err(_) => out = Out::Panic,
            }
        }
        let dev: Vec<String> = step["dev"].as_array().map(|a| a.iter().map(|x| x.as_str().unwrap().to_string()).collect()).unwrap_or_default();
        let must = step["must"].as_str().unwrap_or("ok");
        let model_res = match step["res"].as_str().unwrap_or("ok") {
            "ok" | "false" => "ok",
            "err" => "err",
            _ => "panic",
        };
        if vec.is_none() || matches!(out, Out::Panic) {
            // a panic (or a vector lost in a failed reimport) ends the behaviour
            let known = !dev.is_empty() && model_res == out.class();
            if known {
                note_known(st, &dev, steps, si);
            } else {
                st.violations.push(json!({"behaviour": bidx, "step": si, "op": op, "args": args, "what": format!("outcome {} ({})", out.class(), match &out { Out::Err(e) => e.as_str(), _ => "" }),
                    "expected": step["exp"], "must": must, "steps": steps[..=si].iter().map(short).collect::<Vec<_>>()}));
            }
            break;
        }
        let exp = parse_obs(&step["exp"]);
        let imp = parse_obs(&step["impl"]);
        let o = match catch_unwind(AssertUnwindSafe(|| observe(vec.as_ref().unwrap(), b))) {
            Ok(o) => o,
            Err(_) => {
                // reading the vector panicked: known only if the as-is model predicts unreadable (junk) elements
                let known = !dev.is_empty() && imp.view.contains(&JUNK);
                if known {
                    note_known(st, &dev, steps, si);
                } else {
                    st.violations.push(json!({"behaviour": bidx, "step": si, "op": op, "args": args, "what": "reading the vector panicked",
                        "expected": step["exp"], "must": must, "dev": dev, "steps": steps[..=si].iter().map(short).collect::<Vec<_>>()}));
                }
                break;
            }
        };
        let class_ok = match must {
            "ok" => matches!(out, Out::Ok),
            "err" => matches!(out, Out::Err(_)),
            "either" => true,
            _ => false,
        };
        let same = |a: &Obs, m: &Obs| a.bad_block.is_none() && a.len == m.len && a.view == m.view && a.holes == m.holes && a.stamp == m.stamp;
        let mut prop_ok = class_ok && same(&o, &exp);
        let same_impl = |a: &Obs, m: &Obs| (a.bad_block.is_none() || m.view.contains(&JUNK)) && a.len == m.len && a.holes == m.holes && a.stamp == m.stamp
            && match m.view.iter().position(|y| *y == JUNK) {
                // the as-is model predicts unreadable elements from here on: only the readable prefix is compared
                Some(p) => a.view.len() >= p && a.view[..p] == m.view[..p],
                None => a.view == m.view,
            };
        let impl_ok = out.class() == model_res && same_impl(&o, &imp);
        let mut cut = false;
        if must == "either" && out.class() != model_res {
            // the real code took the other permitted outcome: a refusal must change nothing
            if matches!(out, Out::Err(_)) {
                prop_ok = same(&o, &prev);
            } else {
                prop_ok = true; // success where the as-is model refuses: expectation not computed, stop here
            }
            cut = true;
        }
        // C13: whatever the class, a refused call must leave the observable state unchanged
        if matches!(out, Out::Err(_)) && op != "rollback_before" && !same(&o, &prev) && !(impl_ok && !dev.is_empty()) {
            prop_ok = false;
        }
        // C07: page index of compressed vectors, evaluated on the real bytes
        if V::CMP && cfg.check_pages && matches!(out, Out::Ok) && matches!(op, "write" | "commit" | "reimport") {
            let rn = vec.as_ref().unwrap().rname();
            if let Some((pages, rlen)) = real_pages(db.as_ref().unwrap(), &rn) {
                st.pages_checked += 1;
                let stored = o.len * b - 0; // after a successful write everything is stored
                let wf = pages_well_formed(&pages, rlen, cfg.per_page_real, stored, vecdb::HEADER_OFFSET);
                if let Err(e) = wf {
                    if dev.is_empty() || !impl_ok {
                        st.violations.push(json!({"behaviour": bidx, "step": si, "op": op, "what": format!("page index not well formed: {e}"),
                            "pages": pages.iter().map(|p| json!([p.0, p.1, p.2, p.3])).collect::<Vec<_>>(), "region_len": rlen,
                            "steps": steps[..=si].iter().map(short).collect::<Vec<_>>()}));
                        break;
                    }
                }
                // informational: agreement with the model's page index at exact scale
                if let Some(mp) = step["pages"].as_array() {
                    let model: Vec<(usize, bool)> = mp.iter().map(|p| (p["n"].as_u64().unwrap() as usize * b, p["raw"].as_bool().unwrap())).collect();
                    let real: Vec<(usize, bool)> = pages.iter().map(|p| (p.2 as usize, p.3)).collect();
                    if model == real { st.pages_equal_model += 1 } else { st.pages_differ_model += 1 }
                }
            }
        }
        if prop_ok {
            if !impl_ok && !cut {
                // satisfies the property but not the as-is model (e.g. a repaired deviation): stop, no verdict beyond this step
                cut = true;
            }
        } else if impl_ok && !dev.is_empty() {
            note_known(st, &dev, steps, si);
        } else {
            st.violations.push(json!({"behaviour": bidx, "step": si, "op": op, "args": args,
                "what": format!("outcome {} {}", out.class(), match &out { Out::Err(e) => e.clone(), _ => String::new() }),
                "must": must, "expected": step["exp"], "model_impl": step["impl"], "model_res": step["res"], "dev": dev,
                "observed": obs_to_json(&o), "before": obs_to_json(&prev),
                "steps": steps[..=si].iter().map(short).collect::<Vec<_>>()}));
            break;
        }
        if cut {
            st.cut_permitted += 1;
            break;
        }
        if cfg.reads && prop_ok && impl_ok {
            let vr = vec.as_ref().unwrap();
            let slen = step["slen"].as_u64().unwrap_or(0);
            let dlen = step["dlen"].as_u64().unwrap_or(0);
            let expanded = slen > dlen;
            let hist = |si: usize| json!(steps[..=si].iter().map(short).collect::<Vec<_>>());
            // accesses made by the operation itself (change-record construction, page decoding)
            let (n0, oob0) = rawdb::verif::access_tap_take();
            st.accesses += n0;
            let view = vr.view();
            let mut rep = crate::reads::ReadReport { calls: 0, bad: vec![] };
            let mut cursor_bad = 0u64;
            crate::reads::check_reads::<V::T, V>(vr, "rw.", &view, b, o.holes.is_empty(), &mut rep, &mut cursor_bad);
            let (n1, oob1) = rawdb::verif::access_tap_take();
            st.accesses += n1;
            let all_stored = matches!(op, "write" | "commit" | "reimport") && matches!(out, Out::Ok) && o.holes.is_empty();
            let ro = vr.ro();
            let bx = vr.boxed();
            if all_stored {
                let mut cb = 0u64;
                crate::reads::check_reads::<V::T, V::RO>(&ro, "ro.", &view, b, true, &mut rep, &mut cb);
                crate::reads::check_reads_dyn::<V::T>(&*bx, "boxed.", &view, b, &mut rep);
                vr.cached_check(&view, b, &mut rep);
                let len = view.len();
                for &from in &crate::reads::boundaries(len, b) {
                    for &to in &crate::reads::boundaries(len, b) {
                        let want: Vec<u64> = if from.min(len) < to.min(len) { view[from.min(len)..to.min(len)].iter().map(|x| x.unwrap().bits()).collect() } else { vec![] };
                        match catch_unwind(AssertUnwindSafe(|| vr.stored_scans(from, to))) {
                            Ok(Some((m, i))) => {
                                rep.calls += 2;
                                if m.iter().map(|x| x.bits()).collect::<Vec<_>>() != want { rep.bad.push(("rw.fold_stored_mmap".into(), from, to, "differs".into())); }
                                if i.iter().map(|x| x.bits()).collect::<Vec<_>>() != want { rep.bad.push(("rw.fold_stored_io".into(), from, to, "differs".into())); }
                            }
                            Ok(None) => {}
                            Err(_) => rep.bad.push(("rw.fold_stored_*".into(), from, to, "panicked".into())),
                        }
                    }
                    match catch_unwind(AssertUnwindSafe(|| vr.point_read(from))) {
                        Ok(Some(g)) => {
                            rep.calls += 1;
                            if g.map(|x| x.bits()) != view.get(from).copied().flatten().map(|x| x.bits()) { rep.bad.push(("reader.try_get".into(), from, from + 1, "differs".into())); }
                        }
                        Ok(None) => {}
                        Err(_) => rep.bad.push(("reader.try_get".into(), from, from + 1, "panicked".into())),
                    }
                }
            } else {
                // not comparable with the reference (buffered / edited state): exercised for the access tap only
                let _ = catch_unwind(AssertUnwindSafe(|| { let l = ro.len(); let _ = ro.collect_range_at(0, l); let _ = ro.fold_range_at(0, l, 0u64, |a, _v: V::T| a + 1); let _ = bx.collect_range_dyn(0, l);
                    if l > 0 { let _ = vr.point_read(l - 1); } }));
            }
            let (n2, oob2) = rawdb::verif::access_tap_take();
            st.accesses += n2;
            st.read_calls += rep.calls;
            st.read_states += 1;
            if cursor_bad > 0 {
                // position-addressed reads on a raw vector with deleted slots (D5)
                note_known(st, &["D5".to_string()], steps, si);
            }
            if !rep.bad.is_empty() {
                st.violations.push(json!({"behaviour": bidx, "step": si, "op": op, "args": args, "reads": true,
                    "what": format!("read path disagrees with the reference: {:?}", &rep.bad[..rep.bad.len().min(3)]),
                    "observed": obs_to_json(&o), "steps": hist(si)}));
                break;
            }
            if (!oob0.is_empty() || !oob1.is_empty()) && !dev.is_empty() {
                // the behaviour has taken known deviations (stale undo baseline etc.): their consequence, not a new finding
                note_known(st, &dev, steps, si);
            } else if !oob0.is_empty() || !oob1.is_empty() {
                st.violations.push(json!({"behaviour": bidx, "step": si, "op": op, "args": args, "access": true,
                    "what": format!("read outside the region's valid data: {:?}", oob0.iter().chain(oob1.iter()).take(2).collect::<Vec<_>>()),
                    "steps": hist(si)}));
                break;
            }
            if !oob2.is_empty() {
                if expanded {
                    // read-only clone / point reader while the logical length exceeds what is on disk (D9)
                    note_known(st, &["D9".to_string()], steps, si);
                } else {
                    st.violations.push(json!({"behaviour": bidx, "step": si, "op": op, "args": args, "access": true,
                        "what": format!("read-only clone read outside the region's valid data: {:?}", &oob2[..oob2.len().min(2)]), "steps": hist(si)}));
                    break;
                }
            }
        }
        prev = o;
    }
    st.behaviours += 1;
    if nontrivial && steps.len() >= 3 {
        let key: String = steps.iter().map(|s| short(s).to_string()).collect::<Vec<_>>().join(";");
        st.nontrivial.insert(fnv(&key));
    }
    drop(vec);
    drop(db);
}

/// count a known-deviation hit; keep the shortest history seen per deviation
fn note_known(st: &mut Stats, dev: &[String], steps: &[Value], si: usize) {
    for d in dev {
        let e = st.known.entry(d.clone()).or_insert((0, json!(steps[..=si].iter().map(short).collect::<Vec<_>>())));
        e.0 += 1;
        if e.1.as_array().map(|a| a.len()).unwrap_or(0) > si + 1 {
            e.1 = json!(steps[..=si].iter().map(short).collect::<Vec<_>>());
        }
    }
}

/// C07 lossless part: the behaviour's chunking (pushes / truncations / writes / re-imports) is kept, the values are
/// extreme integers and special floating-point bit patterns; contents are compared bit for bit with a shadow list.
fn run_one_special<V: VK>(steps: &[Value], cfg: &Cfg, st: &mut Stats, bidx: usize, ctr: &mut u64) {
    let scratch = Scratch::new("vecs");
    let name = "v";
    let mut db = Some(Database::open(scratch.path()).expect("open db"));
    let mut vec: Option<V> = Some(V::open(db.as_ref().unwrap(), name, cfg.k, 1).expect("create vec"));
    let b = cfg.block;
    let mut shadow: Vec<u64> = vec![];
    for (si, step) in steps.iter().enumerate() {
        let op = step["op"].as_str().unwrap();
        let args: Vec<u64> = step["args"].as_array().map(|a| a.iter().map(|x| x.as_u64().unwrap()).collect()).unwrap_or_default();
        *st.ops.entry(op.to_string()).or_default() += 1;
        st.steps += 1;
        let r = catch_unwind(AssertUnwindSafe(|| -> R<()> {
            let vr = vec.as_mut().unwrap();
            match op {
                "push" => {
                    for _ in 0..b {
                        let v = V::T::special(*ctr);
                        *ctr += 1;
                        shadow.push(v.bits());
                        vr.push(v);
                    }
                    Ok(())
                }
                "truncate" => {
                    shadow.truncate(args[0] as usize * b);
                    vr.truncate(args[0] as usize * b)
                }
                "write" => vr.write().map(|_| ()),
                "reset" => {
                    shadow.clear();
                    vr.reset()
                }
                "reimport" => {
                    vr.flush()?;
                    db.as_ref().unwrap().flush()?;
                    drop(vec.take());
                    drop(db.take());
                    let ndb = Database::open(scratch.path())?;
                    let nv = V::open(&ndb, name, cfg.k, 1);
                    db = Some(ndb);
                    vec = Some(nv?);
                    Ok(())
                }
                _ => Ok(()),
            }
        }));
        let dev_tagged = step["dev"].as_array().map(|d| !d.is_empty()).unwrap_or(false);
        if dev_tagged {
            break; // known deviations are judged by the model-value replay
        }
        let got = catch_unwind(AssertUnwindSafe(|| vec.as_ref().map(|v| v.view().iter().map(|e| e.map(|x| x.bits())).collect::<Vec<_>>())));
        let ok = matches!(r, Ok(Ok(()))) && match &got {
            Ok(Some(g)) => g.len() == shadow.len() && g.iter().zip(shadow.iter()).all(|(a, b)| *a == Some(*b)),
            _ => false,
        };
        if !ok {
            let first = match &got {
                Ok(Some(g)) => g.iter().zip(shadow.iter()).position(|(a, b)| *a != Some(*b)).map(|i| format!("index {i}: got {:?} want {:#x}", g[i], shadow[i])).unwrap_or(format!("length {} vs {}", g.len(), shadow.len())),
                _ => "read panicked".to_string(),
            };
            st.violations.push(json!({"behaviour": bidx, "step": si, "op": op, "args": args, "special": true,
                "what": format!("bit-exact contents differ after {op}: {first}; call result {:?}", r.as_ref().map(|x| x.as_ref().map_err(|e| format!("{e:?}"))).map_err(|_| "panic")),
                "steps": steps[..=si].iter().map(short).collect::<Vec<_>>()}));
            break;
        }
    }
    st.behaviours += 1;
    if steps.len() >= 3 {
        let key: String = steps.iter().map(|s| short(s).to_string()).collect::<Vec<_>>().join(";");
        st.nontrivial.insert(fnv(&key));
    }
    drop(vec);
    drop(db);
}

fn short(s: &Value) -> Value {
    let op = s["op"].as_str().unwrap_or("?");
    let a: Vec<String> = s["args"].as_array().map(|a| a.iter().map(|x| x.to_string()).collect()).unwrap_or_default();
    Value::String(format!("{}({})", op, a.join(",")))
}

fn run_all<V: VK>(lines: &[Vec<Value>], cfg: &Cfg) -> Stats {
    let mut st = Stats::default();
    let mut ctr = 0u64;
    for (i, steps) in lines.iter().enumerate() {
        if cfg.special {
            run_one_special::<V>(steps, cfg, &mut st, i, &mut ctr);
        } else {
            run_one::<V>(steps, cfg, &mut st, i);
        }
        if st.violations.len() >= 5 {
            break;
        }
    }
    st
}

pub fn main(args: &[String]) -> i32 {
    let f = parse_flags(args);
    let input = f.get("in").expect("--in");
    let format = f.get("format").map(|s| s.as_str()).unwrap_or("bytes");
    let ty = f.get("type").map(|s| s.as_str()).unwrap_or("u32");
    let k: u16 = f.get("k").map(|s| s.parse().unwrap()).unwrap_or(0);
    let block: usize = f.get("block").map(|s| s.parse().unwrap()).unwrap_or(1);
    let rd = std::io::BufReader::new(std::fs::File::open(input).expect("open input"));
    let mut lines: Vec<Vec<Value>> = vec![];
    for l in rd.lines() {
        let l = l.unwrap();
        if l.trim().is_empty() {
            continue;
        }
        let v: Value = serde_json::from_str(&l).expect("json");
        lines.push(v.as_array().unwrap().clone());
    }
    let size = match ty { "u8" | "i8" => 1, "u16" | "i16" => 2, "u32" | "i32" | "f32" | "be32" => 4, _ => 8 };
    let special = f.contains_key("special");
    let reads = f.contains_key("reads");
    if reads { rawdb::verif::access_tap_start(); }
    let cfg = Cfg { reads, special, k, block, check_pages: true, per_page_real: 16 * 1024 / size };
    let st = match (format, ty) {
        ("bytes", "u32") => run_all::<BytesVec<usize, u32>>(&lines, &cfg),
        ("bytes", "be32") => run_all::<BytesVec<usize, Be32>>(&lines, &cfg),
        ("bytes", "u64") => run_all::<BytesVec<usize, u64>>(&lines, &cfg),
        ("bytes", "u16") => run_all::<BytesVec<usize, u16>>(&lines, &cfg),
        ("bytes", "f64") => run_all::<BytesVec<usize, f64>>(&lines, &cfg),
        ("zerocopy", "u32") => run_all::<ZeroCopyVec<usize, u32>>(&lines, &cfg),
        ("zerocopy", "u64") => run_all::<ZeroCopyVec<usize, u64>>(&lines, &cfg),
        ("pco", "u32") => run_all::<PcoVec<usize, u32>>(&lines, &cfg),
        ("pco", "u64") => run_all::<PcoVec<usize, u64>>(&lines, &cfg),
        ("pco", "f64") => run_all::<PcoVec<usize, f64>>(&lines, &cfg),
        ("pco", "u16") => run_all::<PcoVec<usize, u16>>(&lines, &cfg),
        ("lz4", "u32") => run_all::<LZ4Vec<usize, u32>>(&lines, &cfg),
        ("lz4", "u64") => run_all::<LZ4Vec<usize, u64>>(&lines, &cfg),
        ("zstd", "u32") => run_all::<ZstdVec<usize, u32>>(&lines, &cfg),
        ("zstd", "u64") => run_all::<ZstdVec<usize, u64>>(&lines, &cfg),
        ("pco", "f32") => run_all::<PcoVec<usize, f32>>(&lines, &cfg),
        ("pco", "i64") => run_all::<PcoVec<usize, i64>>(&lines, &cfg),
        ("pco", "i32") => run_all::<PcoVec<usize, i32>>(&lines, &cfg),
        ("pco", "i16") => run_all::<PcoVec<usize, i16>>(&lines, &cfg),
        ("lz4", "u8") => run_all::<LZ4Vec<usize, u8>>(&lines, &cfg),
        ("lz4", "f64") => run_all::<LZ4Vec<usize, f64>>(&lines, &cfg),
        ("lz4", "i64") => run_all::<LZ4Vec<usize, i64>>(&lines, &cfg),
        ("lz4", "u16") => run_all::<LZ4Vec<usize, u16>>(&lines, &cfg),
        ("zstd", "u8") => run_all::<ZstdVec<usize, u8>>(&lines, &cfg),
        ("zstd", "f64") => run_all::<ZstdVec<usize, f64>>(&lines, &cfg),
        ("zstd", "f32") => run_all::<ZstdVec<usize, f32>>(&lines, &cfg),
        ("zstd", "i16") => run_all::<ZstdVec<usize, i16>>(&lines, &cfg),
        ("eager_bytes", "u32") => run_all::<EagerVec<BytesVec<usize, u32>>>(&lines, &cfg),
        ("eager_pco", "u32") => run_all::<EagerVec<PcoVec<usize, u32>>>(&lines, &cfg),
        other => {
            eprintln!("unsupported format/type {other:?}");
            return 2;
        }
    };
    let out = json!({
        "format": format, "type": ty, "k": k, "block": block, "special": special,
        "behaviours": st.behaviours, "steps": st.steps, "distinct_nontrivial": st.nontrivial.len(),
        "ops": st.ops, "cut_permitted": st.cut_permitted, "stale_reader_registrations": st.stale_readers,
        "known": st.known.iter().map(|(d, (c, h))| json!({"dev": d, "count": c, "history": h})).collect::<Vec<_>>(),
        "read_calls": st.read_calls, "read_states": st.read_states, "accesses_checked": st.accesses,
        "pages_checked": st.pages_checked, "pages_equal_model": st.pages_equal_model, "pages_differ_model": st.pages_differ_model,
        "violations": st.violations,
    });
    let mut so = std::io::stdout();
    writeln!(so, "{}", out).unwrap();
    if st.violations.is_empty() { 0 } else { 1 }
}
