//! Codec conformance: region-metadata slots, vector headers, page-index entries, rollback change records and
//! value encodings of the real code against the cases emitted by TLC from spec/Codec.tla.
//!
//! Property: every valid value decodes to exactly what was encoded; arbitrary / truncated bytes decode to an error or to
//! a value satisfying the validity rules; decoding never panics, overflows or allocates beyond the input size; a
//! metadata slot that fails validation is ignored at open without disturbing the valid ones.
//!
//! `vh codecreplay --in cases.ndjson [--keep-going] [--known id,id,...]`
//!   --keep-going : do not stop after --max-violations (default 10) violations (the list still holds only the first ones;
//!                  see violations_total / violation_classes / class_examples)
//!   --known      : violation class ids that are tolerated (reported under "known", do not affect the exit code);
//!                  `id=N` additionally requires exactly N occurrences (else violation `known_count`)
use std::alloc::{GlobalAlloc, Layout, System};
use std::collections::{BTreeMap, BTreeSet};
use std::io::{BufRead, Write};
use std::panic::{AssertUnwindSafe, catch_unwind};
use std::path::Path;
use std::sync::atomic::{AtomicBool, AtomicUsize, Ordering};

use serde_json::{Value, json};
use vecdb::{
    AnyStoredVec, AnyVec, Bytes, BytesVec, Database, Format, HEADER_OFFSET, ImportOptions, ImportableVec, LZ4Vec, PcoVec, ReadableVec,
    Stamp, Version, WritableVec, ZeroCopyVec, ZstdVec, vec_region_name_with,
};

use crate::util::{Scratch, fnv, parse_flags};

// ---------------------------------------------------------------------------------------------------------------------
// allocation tap: largest single allocation request while armed ("never allocates beyond the input size")
// ---------------------------------------------------------------------------------------------------------------------
struct AllocTap;
static ARMED: AtomicBool = AtomicBool::new(false);
static PEAK: AtomicUsize = AtomicUsize::new(0);

#[inline]
fn note(sz: usize) {
    if ARMED.load(Ordering::Relaxed) {
        PEAK.fetch_max(sz, Ordering::Relaxed);
    }
}
unsafe impl GlobalAlloc for AllocTap {
    unsafe fn alloc(&self, l: Layout) -> *mut u8 {
        note(l.size());
        unsafe { System.alloc(l) }
    }
    unsafe fn dealloc(&self, p: *mut u8, l: Layout) {
        unsafe { System.dealloc(p, l) }
    }
    unsafe fn alloc_zeroed(&self, l: Layout) -> *mut u8 {
        note(l.size());
        unsafe { System.alloc_zeroed(l) }
    }
    unsafe fn realloc(&self, p: *mut u8, l: Layout, n: usize) -> *mut u8 {
        note(n);
        unsafe { System.realloc(p, l, n) }
    }
}
#[global_allocator]
static GLOBAL: AllocTap = AllocTap;

/// Runs `f` (code under test) with panics caught; returns the outcome and the largest single allocation it requested.
fn guarded<R>(f: impl FnOnce() -> R) -> (Result<R, String>, usize) {
    PEAK.store(0, Ordering::Relaxed);
    ARMED.store(true, Ordering::Relaxed);
    let r = catch_unwind(AssertUnwindSafe(f));
    ARMED.store(false, Ordering::Relaxed);
    let peak = PEAK.load(Ordering::Relaxed);
    (
        r.map_err(|p| {
            p.downcast_ref::<String>().cloned().or_else(|| p.downcast_ref::<&str>().map(|s| s.to_string())).unwrap_or_else(|| "panic".into())
        }),
        peak,
    )
}

/// Runs `f` in a forked child process so that a memory fault in the code under test is data too. `f` reports its
/// progress as JSON values through the callback; the parent gets the values reported before the child ended and the
/// signal that killed it, if any. The harness is single-threaded, so fork() is safe here.
fn isolated(f: impl FnOnce(&mut dyn FnMut(Value))) -> (Vec<Value>, Option<i32>, i32) {
    use std::io::Read;
    use std::os::fd::FromRawFd;
    let mut fds = [0i32; 2];
    assert_eq!(unsafe { libc::pipe(fds.as_mut_ptr()) }, 0, "pipe");
    let pid = unsafe { libc::fork() };
    assert!(pid >= 0, "fork");
    if pid == 0 {
        unsafe {
            libc::close(fds[0]);
            let no_core = libc::rlimit { rlim_cur: 0, rlim_max: 0 };
            libc::setrlimit(libc::RLIMIT_CORE, &no_core);
        }
        let mut w = unsafe { std::fs::File::from_raw_fd(fds[1]) };
        let code = match catch_unwind(AssertUnwindSafe(|| {
            f(&mut |v: Value| {
                let _ = writeln!(w, "{v}");
            })
        })) {
            Ok(()) => 0,
            Err(_) => 3,
        };
        unsafe { libc::_exit(code) };
    }
    unsafe { libc::close(fds[1]) };
    let mut r = unsafe { std::fs::File::from_raw_fd(fds[0]) };
    let mut buf = String::new();
    let _ = r.read_to_string(&mut buf);
    let mut status = 0i32;
    unsafe { libc::waitpid(pid, &mut status, 0) };
    let sig = if libc::WIFSIGNALED(status) { Some(libc::WTERMSIG(status)) } else if libc::WIFEXITED(status) && libc::WEXITSTATUS(status) != 0 { Some(-libc::WEXITSTATUS(status)) } else { None };
    (buf.lines().filter_map(|l| serde_json::from_str(l).ok()).collect(), sig, pid)
}

fn outcome<T>(r: &Result<vecdb::Result<T>, String>) -> String {
    match r {
        Ok(Ok(_)) => "ok".into(),
        Ok(Err(e)) => format!("err:{}:{}", verr_kind(e), format!("{e:?}").chars().take(160).collect::<String>()),
        Err(p) => format!("panic:{p}"),
    }
}

/// An evaluation that may end in a memory fault: executed inside a child process (see `run_jobs`).
enum Job {
    Page { case: Value, expect: String, size: String, entry: Vec<u8> },
    Change { tag: &'static str, case: Value, kind: String, bytes: Vec<u8>, expect: String },
}

/// Lines reported by a job and, if the process died while running it, the signal (negative = exit code).
type JobResult = (Vec<Value>, Option<i32>);

/// Runs the jobs in order inside a forked child (fork is expensive, so one child serves many jobs); when the child
/// dies the job it was running is marked and a new child continues with the next job.
fn run_jobs(jobs: &[Job]) -> Vec<JobResult> {
    let n = jobs.len();
    let mut res: Vec<JobResult> = (0..n).map(|_| (vec![], None)).collect();
    let mut next = 0;
    while next < n {
        let (lines, sig, pid) = isolated(|report| {
            for (i, job) in jobs.iter().enumerate().skip(next) {
                report(json!({"job": i, "phase": "begin"}));
                let mut rep = |mut v: Value| {
                    v["job"] = json!(i);
                    report(v)
                };
                match job {
                    Job::Page { entry, .. } => page_job(entry, &mut rep),
                    Job::Change { kind, bytes, .. } => change_job(kind, bytes, &mut rep),
                }
                report(json!({"job": i, "phase": "end"}));
            }
        });
        let mut open_job = None;
        let mut done = next;
        for l in lines {
            let j = l["job"].as_u64().unwrap() as usize;
            match l["phase"].as_str().unwrap() {
                "begin" => open_job = Some(j),
                "end" => {
                    open_job = None;
                    done = j + 1;
                }
                _ => res[j].0.push(l),
            }
        }
        match sig {
            None => next = n,
            Some(sg) => {
                let j = open_job.unwrap_or(done).min(n - 1);
                res[j].1 = Some(sg);
                next = j + 1;
                // scratch directories of the dead child
                for base in ["/dev/shm".to_string(), std::env::temp_dir().to_string_lossy().to_string()] {
                    if let Ok(rd) = std::fs::read_dir(&base) {
                        for e in rd.flatten() {
                            let name = e.file_name().to_string_lossy().to_string();
                            if name.starts_with("vh-codec-") && name.contains(&format!("-{pid}-")) {
                                let _ = std::fs::remove_dir_all(e.path());
                            }
                        }
                    }
                }
            }
        }
    }
    res
}

// ---------------------------------------------------------------------------------------------------------------------
// summary
// ---------------------------------------------------------------------------------------------------------------------
#[derive(Default)]
struct Sum {
    cases: u64,
    skipped: u64,
    evaluations: u64,
    distinct: BTreeSet<u64>,
    by_kind: BTreeMap<String, u64>,
    kind_notes: u64,
    kind_note_examples: Vec<Value>,
    wild_panic: u64,
    wild_err: u64,
    wild_ok: u64,
    wild_ok_good_damaged: u64,
    wild_ok_self_read_panic: u64,
    wild_examples: BTreeMap<String, Value>,
    benign: u64,
    benign_examples: Vec<Value>,
    violations: Vec<Value>,
    violations_total: u64,
    classes: BTreeMap<String, u64>,
    class_examples: BTreeMap<String, Value>,
    known_ids: BTreeMap<String, Option<u64>>,
    max_violations: usize,
    wild_table: BTreeMap<String, u64>,
    known: BTreeMap<String, (u64, Value)>,
    peak_alloc: BTreeMap<String, usize>,
    fixtures: BTreeMap<String, Value>,
}

impl Sum {
    fn eval(&mut self, kind: &str) {
        self.evaluations += 1;
        *self.by_kind.entry(kind.to_string()).or_default() += 1;
    }
    fn peak(&mut self, kind: &str, p: usize) {
        let e = self.peak_alloc.entry(kind.to_string()).or_default();
        *e = (*e).max(p);
    }
    fn violate(&mut self, id: &str, case: &Value, what: &str, detail: String) {
        let detail: String = if detail.chars().count() > 400 { detail.chars().take(400).chain("...".chars()).collect() } else { detail };
        let v = json!({"id": id, "case": case, "what": what, "detail": detail});
        if self.known_ids.contains_key(id) {
            let e = self.known.entry(id.to_string()).or_insert((0, v));
            e.0 += 1;
            return;
        }
        self.violations_total += 1;
        *self.classes.entry(id.to_string()).or_default() += 1;
        self.class_examples.entry(id.to_string()).or_insert_with(|| v.clone());
        if self.violations.len() < self.max_violations {
            self.violations.push(v);
        }
    }
    fn kind_note(&mut self, case: &Value, expect: &str, got: &str) {
        self.kind_notes += 1;
        if self.kind_note_examples.len() < 6 {
            self.kind_note_examples.push(json!({"case": case, "expect": expect, "got": got}));
        }
    }
}

fn cls(c: u64) -> u64 {
    match c {
        0 => 0,
        1 => 1,
        3 => 4095,
        4 => 4096,
        5 => 4097,
        8 => 8192,
        1000 => 1 << 32,
        2000 => 1 << 63,
        3003 => u64::MAX,
        o => panic!("unknown class code {o}"),
    }
}

// ---------------------------------------------------------------------------------------------------------------------
// region metadata slots
// ---------------------------------------------------------------------------------------------------------------------
const SLOT: usize = 4096;
const DATA_LEN: usize = 1 << 20;

fn encode_slot(start: u64, len: u64, res: u64, id_len: u64, id_bytes: &[u8]) -> Vec<u8> {
    let mut b = vec![0u8; SLOT];
    b[0..8].copy_from_slice(&start.to_le_bytes());
    b[8..16].copy_from_slice(&len.to_le_bytes());
    b[16..24].copy_from_slice(&res.to_le_bytes());
    b[24..32].copy_from_slice(&id_len.to_le_bytes());
    let n = id_bytes.len().min(SLOT - 32);
    b[32..32 + n].copy_from_slice(&id_bytes[..n]);
    b
}

fn good_bytes(which: u8, n: usize) -> Vec<u8> {
    (0..n).map(|i| (i as u8).wrapping_mul(7).wrapping_add(which)).collect()
}

struct SlotEnv {
    scratch: Scratch,
    data_written: bool,
}

impl SlotEnv {
    fn new() -> Self {
        SlotEnv { scratch: Scratch::new("codec-slot"), data_written: false }
    }
    fn ensure_data(&mut self) {
        let p = self.scratch.path().join("data");
        let ok = self.data_written && std::fs::metadata(&p).map(|m| m.len() as usize == DATA_LEN).unwrap_or(false);
        if !ok {
            let mut d = vec![0xA5u8; DATA_LEN];
            d[0..100].copy_from_slice(&good_bytes(1, 100));
            d[4096..4106].copy_from_slice(&good_bytes(2, 10));
            std::fs::write(&p, &d).unwrap();
            self.data_written = true;
        }
    }
}

fn rawdb_err_kind(e: &rawdb::Error) -> String {
    match e {
        rawdb::Error::InvalidMetadataSize { .. } => "err_size".into(),
        rawdb::Error::EmptyMetadata => "err_empty".into(),
        rawdb::Error::InvalidRegionId => "err_utf8".into(),
        rawdb::Error::CorruptedMetadata(m) => {
            if m.starts_with("id_len") {
                "err_idlen".into()
            } else if m.starts_with("start") {
                "err_start".into()
            } else if m.starts_with("reserved") {
                "err_reserved".into()
            } else if m.starts_with("len") {
                "err_len".into()
            } else {
                format!("err_other:{m}")
            }
        }
        o => format!("err_other:{o:?}"),
    }
}

fn read_region(db: &rawdb::Database, id: &str) -> Result<Vec<u8>, String> {
    match catch_unwind(AssertUnwindSafe(|| db.get_region(id).map(|r| r.create_reader().read_all().to_vec()))) {
        Ok(Some(v)) => Ok(v),
        Ok(None) => Err("absent".into()),
        Err(_) => Err("panic while reading".into()),
    }
}

fn goods_intact(db: &rawdb::Database) -> Result<(), String> {
    let a = read_region(db, "good").map_err(|e| format!("good: {e}"))?;
    if a != good_bytes(1, 100) {
        return Err(format!("good: bytes differ (len {})", a.len()));
    }
    let b = read_region(db, "good2").map_err(|e| format!("good2: {e}"))?;
    if b != good_bytes(2, 10) {
        return Err(format!("good2: bytes differ (len {})", b.len()));
    }
    Ok(())
}

fn slot_case(s: &mut Sum, env: &mut SlotEnv, case: &Value, expect: &str, open_safe: bool) {
    let start = cls(case["start"].as_u64().unwrap());
    let len = cls(case["len"].as_u64().unwrap());
    let res = cls(case["res"].as_u64().unwrap());
    let idlen_code = case["idlen"].as_u64().unwrap();
    let idlen = if idlen_code == 2_000_000 { 1u64 << 63 } else { idlen_code };
    let utf8 = case["utf8"].as_bool().unwrap();
    let fill = idlen.min((SLOT - 32) as u64) as usize;
    let id_bytes = vec![if utf8 { b'a' } else { 0xFF }; fill];
    let full = encode_slot(start, len, res, idlen, &id_bytes);
    let size = case["size"].as_str().unwrap();
    let bytes: &[u8] = match size {
        "exact" => &full,
        "short" => &full[..SLOT - 1],
        "empty" => &[],
        o => panic!("slot size {o}"),
    };

    // --- direct decode
    s.eval("slot_decode");
    let (r, peak) = guarded(|| rawdb::RegionMetadata::from_bytes(bytes));
    s.peak("slot_decode", peak);
    if peak > SLOT {
        s.violate("slot_alloc", case, "decoder allocated beyond the input size", format!("largest allocation {peak} bytes for a {}-byte input", bytes.len()));
    }
    let expect_ok = expect == "ok";
    match r {
        Err(p) => s.violate("slot_decode_panic", case, "RegionMetadata::from_bytes panicked", p),
        Ok(Ok(m)) => {
            if !expect_ok {
                s.violate("slot_accepts_invalid", case, "decoder accepted a slot the model rejects", format!("expect {expect}, got {m}"));
            }
            let mut bad = vec![];
            if m.start() % 4096 != 0 {
                bad.push("start unaligned");
            }
            if m.reserved() < 4096 || m.reserved() % 4096 != 0 {
                bad.push("reserved invalid");
            }
            if m.len() > m.reserved() {
                bad.push("len > reserved");
            }
            if m.id().len() > 1024 {
                bad.push("id too long");
            }
            if m.start() as u64 != start || m.len() as u64 != len || m.reserved() as u64 != res {
                bad.push("numeric field differs from encoded");
            }
            if m.id().len() as u64 != idlen || m.id().as_bytes() != &id_bytes[..] {
                bad.push("id differs from encoded");
            }
            if !bad.is_empty() {
                s.violate("slot_decoded_value", case, "decoded metadata violates validity / round trip", format!("{bad:?}: {m}"));
            }
        }
        Ok(Err(e)) => {
            let k = rawdb_err_kind(&e);
            if expect_ok {
                s.violate("slot_rejects_valid", case, "decoder rejected a slot the model accepts", format!("{k}: {e}"));
            } else if k != expect {
                s.kind_note(case, expect, &k);
            }
        }
    }

    // --- open test
    if size != "exact" {
        return;
    }
    s.eval("slot_open");
    env.ensure_data();
    let dir = env.scratch.path().to_path_buf();
    let mut regions = encode_slot(0, 100, 4096, 4, b"good");
    regions.extend_from_slice(&full);
    regions.extend(encode_slot(4096, 10, 4096, 5, b"good2"));
    std::fs::write(dir.join("regions"), &regions).unwrap();

    let overflow = start.checked_add(res).is_none();
    let wild = expect_ok && (!open_safe || overflow || start < 8192 || start.saturating_add(res) > DATA_LEN as u64);
    let (r, peak) = guarded(|| rawdb::Database::open(&dir));
    s.peak("slot_open", peak);
    if peak > 65536 {
        s.violate("open_alloc", case, "open allocated beyond the input size", format!("largest allocation {peak} bytes for a {}-byte regions file", regions.len()));
    }
    if wild {
        let key;
        match &r {
            Err(p) => {
                s.wild_panic += 1;
                key = "panic";
                s.violate("open_wild_panic", case, "open panicked on a slot that decodes as valid", p.clone());
            }
            Ok(Err(e)) => {
                s.wild_err += 1;
                key = "err";
                let _ = e;
            }
            Ok(Ok(db)) => {
                s.wild_ok += 1;
                key = "ok";
                if goods_intact(db).is_err() {
                    s.wild_ok_good_damaged += 1;
                }
                let id = String::from_utf8_lossy(&id_bytes).to_string();
                if catch_unwind(AssertUnwindSafe(|| db.get_region(&id).map(|r| r.create_reader().read_all().len()))).is_err() {
                    s.wild_ok_self_read_panic += 1;
                    s.wild_examples.entry("ok_self_read_panic".into()).or_insert_with(|| case.clone());
                }
            }
        }
        *s.wild_table.entry(format!("start={} reserved={} -> {}", case["start"], case["res"], match &r { Err(p) => format!("panic: {p}"), Ok(Err(e)) => format!("err: {e:?}"), Ok(Ok(_)) => "ok".into() })).or_default() += 1;
        s.wild_examples.entry(key.into()).or_insert_with(|| {
            json!({"case": case, "detail": match &r { Err(p) => p.clone(), Ok(Err(e)) => format!("{e:?}"), Ok(Ok(_)) => "opened".into() }})
        });
        drop(r);
        env.data_written = false; // refresh the data file after a wild case
        return;
    }
    match r {
        Err(p) => s.violate("open_panic", case, "open panicked", p),
        Ok(Err(e)) => s.violate("open_err", case, if expect_ok { "open failed on a valid slot" } else { "open failed because of an invalid slot" }, format!("{e:?}")),
        Ok(Ok(db)) => {
            if let Err(e) = goods_intact(&db) {
                s.violate("open_disturbs_valid", case, "valid regions disturbed by the case slot", e);
            }
            let (present, n) = {
                let rg = db.regions();
                (rg.index_to_region().get(1).map(|o| o.is_some()).unwrap_or(false), rg.index_to_region().iter().flatten().count())
            };
            if !expect_ok {
                if present || n != 2 {
                    s.violate("open_keeps_invalid", case, "invalid slot appears as a region after open", format!("slot 1 present={present}, regions={n}"));
                }
            } else {
                let id = String::from_utf8_lossy(&id_bytes).to_string();
                let got = catch_unwind(AssertUnwindSafe(|| {
                    db.get_region(&id).map(|r| {
                        let m = r.meta();
                        (m.start() as u64, m.len() as u64, m.reserved() as u64, r.index())
                    })
                }));
                match got {
                    Ok(Some(t)) if t == (start, len, res, 1) => match read_region(&db, &id) {
                        Ok(b) if b.len() as u64 == len => {}
                        Ok(b) => s.violate("open_valid_slot", case, "valid slot's region reads a wrong length", format!("{} != {len}", b.len())),
                        Err(e) => s.violate("open_valid_slot", case, "valid slot's region unreadable", e),
                    },
                    o => s.violate("open_valid_slot", case, "valid slot not reflected after open", format!("{o:?} n={n}")),
                }
            }
        }
    }
}

/// Real encoder -> file -> public decoder round trip for region metadata.
fn slot_roundtrip(s: &mut Sum) {
    let case = json!({"k": "slot_roundtrip"});
    let sc = Scratch::new("codec-rt");
    let ids: Vec<String> = vec!["a".into(), "x".repeat(1024), "vec/usize".into(), "h\u{e9}llo \u{4e16}\u{754c}".into(), "z".repeat(1023)];
    let r = guarded(|| -> Result<Vec<(String, usize, usize, usize, usize)>, String> {
        let db = rawdb::Database::open(sc.path()).map_err(|e| format!("{e:?}"))?;
        let mut out = vec![];
        for (i, id) in ids.iter().enumerate() {
            let r = db.create_region_if_needed(id).map_err(|e| format!("{e:?}"))?;
            // (a region that never received a byte is not persisted at all by flush(): write first, then truncate)
            r.write(&vec![i as u8 + 1; [1usize, 1, 4095, 4096, 4097][i]]).map_err(|e| format!("{e:?}"))?;
            if i == 0 {
                r.truncate(0).map_err(|e| format!("{e:?}"))?;
            }
        }
        db.flush().map_err(|e| format!("{e:?}"))?;
        for id in &ids {
            let r = db.get_region(id).unwrap();
            let m = r.meta();
            out.push((id.clone(), r.index(), m.start(), m.len(), m.reserved()));
        }
        Ok(out)
    })
    .0;
    let metas = match r {
        Ok(Ok(m)) => m,
        o => {
            s.eval("slot_roundtrip");
            s.violate("slot_roundtrip", &case, "could not build regions", format!("{o:?}"));
            return;
        }
    };
    let file = std::fs::read(sc.path().join("regions")).unwrap();
    for (id, idx, start, len, res) in metas {
        s.eval("slot_roundtrip");
        let slot = &file[idx * SLOT..(idx + 1) * SLOT];
        match guarded(|| rawdb::RegionMetadata::from_bytes(slot)).0 {
            Ok(Ok(m)) if m.id() == id && m.start() == start && m.len() == len && m.reserved() == res => {
                // our own encoder (used for all cases) must agree byte for byte with the real one
                if encode_slot(start as u64, len as u64, res as u64, id.len() as u64, id.as_bytes()) != slot {
                    s.violate("slot_roundtrip", &case, "slot layout differs from the layout assumed by the harness", format!("id len {}", id.len()));
                }
            }
            o => s.violate("slot_roundtrip", &case, "metadata written by the real encoder does not decode to the same value", format!("id len {} -> {o:?}", id.len())),
        }
    }
}

// ---------------------------------------------------------------------------------------------------------------------
// vector headers
// ---------------------------------------------------------------------------------------------------------------------
enum AnyV {
    Bytes(BytesVec<usize, u32>),
    Zc(ZeroCopyVec<usize, u32>),
    Pco(PcoVec<usize, u32>),
    Lz4(LZ4Vec<usize, u32>),
    Zstd(ZstdVec<usize, u32>),
}

fn import(db: &Database, fmt: &str) -> vecdb::Result<AnyV> {
    let o: ImportOptions = (db, "v", Version::new(1)).into();
    match fmt {
        "bytes" => BytesVec::import_with(o).map(AnyV::Bytes),
        "zerocopy" => ZeroCopyVec::import_with(o).map(AnyV::Zc),
        "pco" => PcoVec::import_with(o).map(AnyV::Pco),
        "lz4" => LZ4Vec::import_with(o).map(AnyV::Lz4),
        "zstd" => ZstdVec::import_with(o).map(AnyV::Zstd),
        other => panic!("format {other}"),
    }
}

macro_rules! each {
    ($s:expr, $v:ident => $e:expr) => {
        match $s {
            AnyV::Bytes($v) => $e,
            AnyV::Zc($v) => $e,
            AnyV::Pco($v) => $e,
            AnyV::Lz4($v) => $e,
            AnyV::Zstd($v) => $e,
        }
    };
}

impl AnyV {
    fn fill(&mut self, vals: &[u32], stamp: u64) -> vecdb::Result<()> {
        each!(self, v => {
            for x in vals {
                v.push(*x);
            }
            v.stamped_write(Stamp::new(stamp))
        })
    }
    fn view(&self) -> (Vec<u32>, u64) {
        each!(self, v => (v.collect(), u64::from(v.stamp())))
    }
}

fn verr_kind(e: &vecdb::Error) -> String {
    let d = format!("{e:?}");
    if d.starts_with("DifferentVersion") {
        "err_version".into()
    } else if d.starts_with("DifferentFormat") || d.starts_with("InvalidFormat") {
        "err_format".into()
    } else if d.starts_with("WrongLength") || d.starts_with("CorruptedRegion") {
        "err_len".into()
    } else {
        format!("err_other:{}", d.chars().take(80).collect::<String>())
    }
}

fn header_case(s: &mut Sum, case: &Value, expect: &str) {
    s.eval("header");
    let size = case["size"].as_str().unwrap();
    let hver = case["hver"].as_u64().unwrap() as u32;
    let fmt = case["fmt"].as_str().unwrap();
    let base = if fmt == "bad" { "bytes" } else { fmt };
    let vals: Vec<u32> = if size == "exact" { vec![] } else { vec![3, 1, 4, 1, 5] };
    let sc = Scratch::new("codec-hdr");
    let rname = vec_region_name_with::<usize>("v");

    let setup = guarded(|| -> Result<Database, String> {
        let db = Database::open(sc.path()).map_err(|e| format!("{e:?}"))?;
        let mut v = import(&db, base).map_err(|e| format!("{e:?}"))?;
        v.fill(&vals, 7).map_err(|e| format!("{e:?}"))?;
        drop(v);
        db.flush().map_err(|e| format!("{e:?}"))?;
        let region = db.get_region(&rname).ok_or("vector region absent")?;
        let rlen = region.meta().len();
        if size == "exact" && rlen != HEADER_OFFSET {
            return Err(format!("empty vector region is {rlen} bytes, expected HEADER_OFFSET {HEADER_OFFSET}"));
        }
        let mut h = region.create_reader().read(0, HEADER_OFFSET).to_vec();
        // the layout the harness assumes: versions at 0/4/8, stamp at 12, format at 20
        if h[0..4] != 2u32.to_le_bytes() || h[12..20] != 7u64.to_le_bytes() || Format::from_bytes(&h[20..21]).is_err() {
            return Err(format!("unexpected header layout {h:?}"));
        }
        h[0..4].copy_from_slice(&hver.to_le_bytes());
        if fmt == "bad" {
            h[20] = 0xEE;
        }
        region.write_at(&h, 0).map_err(|e| format!("{e:?}"))?;
        if size == "short" {
            region.truncate(10).map_err(|e| format!("{e:?}"))?;
        }
        db.flush().map_err(|e| format!("{e:?}"))?;
        Ok(db)
    })
    .0;
    let db = match setup {
        Ok(Ok(db)) => db,
        o => {
            s.violate("header_setup", case, "could not prepare the header fixture", format!("{:?}", o.map(|r| r.map(|_| ()))));
            return;
        }
    };
    let want_ok = expect == "ok" && hver == 2;
    let want = if expect != "ok" { expect } else if hver != 2 { "err_version" } else { "ok" };
    let (r, peak) = guarded(|| import(&db, base));
    s.peak("header", peak);
    match r {
        Err(p) => s.violate("header_panic", case, "import panicked on header bytes", p),
        Ok(Ok(v)) => {
            if !want_ok {
                s.violate("header_accepts_invalid", case, "import accepted a header that must be refused", format!("want {want}"));
            } else {
                match catch_unwind(AssertUnwindSafe(|| v.view())) {
                    Ok((got, st)) if got == vals && st == 7 => {}
                    Ok(o) => s.violate("header_roundtrip", case, "re-imported vector differs from what was written", format!("{o:?}")),
                    Err(_) => s.violate("header_panic", case, "reading the re-imported vector panicked", String::new()),
                }
            }
        }
        Ok(Err(e)) => {
            let k = verr_kind(&e);
            if want_ok {
                s.violate("header_rejects_valid", case, "import refused a valid header", format!("{e:?}"));
            } else if k != want {
                s.kind_note(case, want, &k);
            }
        }
    }
}

// ---------------------------------------------------------------------------------------------------------------------
// page index entries (Page is crate-private: exercised through a PcoVec whose `<name>_pages` region is overwritten)
// ---------------------------------------------------------------------------------------------------------------------
fn page_case(s: &mut Sum, jobs: &mut Vec<Job>, case: &Value, expect: &str) {
    s.eval("page");
    let size = case["size"].as_str().unwrap();
    let start = cls(case["start"].as_u64().unwrap());
    let nbytes: u32 = match case["bytes"].as_u64().unwrap() {
        3003 => u32::MAX,
        o => cls(o) as u32,
    };
    let count: u32 = match case["count"].as_u64().unwrap() {
        3003 => 0x7FFF_FFFF,
        o => cls(o) as u32,
    };
    let raw = case["raw"].as_bool().unwrap();
    let mut entry = vec![];
    entry.extend(start.to_le_bytes());
    entry.extend(nbytes.to_le_bytes());
    entry.extend((count | if raw { 1 << 31 } else { 0 }).to_le_bytes());
    match size {
        "exact" => {}
        "short" => entry.truncate(15),
        "long" => entry.push(0),
        o => panic!("page size {o}"),
    }
    jobs.push(Job::Page { case: case.clone(), expect: expect.to_string(), size: size.to_string(), entry });
}

/// Child side of a page case: fixture, import, read, write; every completed phase is reported.
fn page_job(entry: &[u8], report: &mut dyn FnMut(Value)) {
    let vals = vec![3u32, 1, 4, 1, 5];
    let sc = Scratch::new("codec-page");
    let pname = format!("{}_pages", vec_region_name_with::<usize>("v"));
    let setup = guarded(|| -> Result<Database, String> {
        let db = Database::open(sc.path()).map_err(|e| format!("{e:?}"))?;
        let mut v = import(&db, "pco").map_err(|e| format!("{e:?}"))?;
        v.fill(&vals, 7).map_err(|e| format!("{e:?}"))?;
        drop(v);
        db.flush().map_err(|e| format!("{e:?}"))?;
        let pr = db.get_region(&pname).ok_or("pages region absent")?;
        let cur = pr.create_reader().read_all().to_vec();
        // layout assumed by the harness: start u64, bytes u32, values u32 (high bit = raw)
        if cur.len() != 16 || cur[0..8] != (HEADER_OFFSET as u64).to_le_bytes() || u32::from_le_bytes(cur[12..16].try_into().unwrap()) & 0x7FFF_FFFF != 5 {
            return Err(format!("unexpected page index {cur:?}"));
        }
        pr.truncate_write(0, entry).map_err(|e| format!("{e:?}"))?;
        db.flush().map_err(|e| format!("{e:?}"))?;
        Ok(db)
    })
    .0;
    let db = match setup {
        Ok(Ok(db)) => db,
        o => return report(json!({"phase": "setup_failed", "detail": format!("{:?}", o.map(|r| r.map(|_| ())))})),
    };
    let (r, peak) = guarded(|| import(&db, "pco"));
    report(json!({"phase": "import", "r": outcome(&r), "peak": peak}));
    let Ok(Ok(mut v)) = r else { return };
    let (r, peak) = guarded(|| {
        let AnyV::Pco(p) = &v else { unreachable!() };
        (p.len(), p.collect().len())
    });
    report(json!({"phase": "read", "r": match &r { Ok(_) => "ok".to_string(), Err(p) => format!("panic:{p}") }, "lens": r.ok(), "peak": peak}));
    let (r, peak) = guarded(|| {
        let AnyV::Pco(p) = &mut v else { unreachable!() };
        p.push(9);
        p.flush()
    });
    report(json!({"phase": "write", "r": outcome(&r), "peak": peak}));
}

/// Parent side of a page case: judges what the child reported.
fn page_judge(s: &mut Sum, case: &Value, expect: &str, size: &str, (lines, sig): &JobResult) {
    let sig = *sig;
    if let Some(f) = lines.iter().find(|l| l["phase"] == "setup_failed") {
        return s.violate("page_setup", case, "could not prepare the page fixture", f["detail"].to_string());
    }
    let phase = |n: &str| lines.iter().find(|l| l["phase"] == n);
    let died = |s: &mut Sum, after: &str| {
        if let Some(sig) = sig {
            s.violate("page_crash", case, "process died (memory fault / abort) on a page entry that decodes fine", format!("signal {sig} after phase '{after}'"));
        }
    };
    let Some(imp) = phase("import") else { return died(s, "setup") };
    s.peak("page_import", imp["peak"].as_u64().unwrap() as usize);
    let ir = imp["r"].as_str().unwrap();
    if let Some(p) = ir.strip_prefix("panic:") {
        return s.violate("page_import_panic", case, "import panicked on a page index entry", p.into());
    }
    if let Some(e) = ir.strip_prefix("err:") {
        if expect == "ok" && size == "exact" {
            s.violate("page_rejects_valid", case, "import refused a well-formed page entry", e.into());
        } else if expect == "ok" {
            s.kind_note(case, expect, e.split(':').next().unwrap()); // "long": unreachable through Pages::import (chunks of 16)
        }
        return;
    }
    if expect != "ok" {
        return s.violate("page_accepts_short", case, "import accepted a truncated page entry", String::new());
    }
    // reading through the garbage entry: an error or harmless data, never a panic / overflow / giant allocation
    s.eval("page_read");
    let Some(rd) = phase("read") else { return died(s, "import") };
    let peak = rd["peak"].as_u64().unwrap() as usize;
    s.peak("page_read", peak);
    if let Some(p) = rd["r"].as_str().unwrap().strip_prefix("panic:") {
        s.violate("page_read_panic", case, "reading through a page entry that decoded fine panicked", p.into());
    } else if rd["lens"][0] != rd["lens"][1] {
        s.violate("page_read_len", case, "collect() length differs from len()", rd["lens"].to_string());
    }
    if peak > (1 << 20) {
        s.violate("page_alloc", case, "read allocated far beyond the input size", format!("largest allocation {peak} bytes (region data is {} bytes)", HEADER_OFFSET + 20));
    }
    s.eval("page_write");
    let Some(wr) = phase("write") else { return died(s, "read") };
    if let Some(p) = wr["r"].as_str().unwrap().strip_prefix("panic:") {
        s.violate("page_write_panic", case, "writing after import of a page entry that decoded fine panicked", p.into());
    }
    died(s, "write");
}

// ---------------------------------------------------------------------------------------------------------------------
// rollback change records
// ---------------------------------------------------------------------------------------------------------------------
type Obs = (Vec<Option<u32>>, Vec<usize>, u64, usize);

enum ChgV {
    Raw(BytesVec<usize, u32>),
    Cmp(PcoVec<usize, u32>),
}

impl ChgV {
    fn obs(&self) -> Option<Obs> {
        catch_unwind(AssertUnwindSafe(|| match self {
            ChgV::Raw(v) => (v.collect_holed().unwrap(), v.holes().iter().copied().collect(), u64::from(v.stamp()), v.len()),
            ChgV::Cmp(v) => (v.collect().into_iter().map(Some).collect(), vec![], u64::from(v.stamp()), v.len()),
        }))
        .ok()
    }
    fn rollback(&mut self) -> vecdb::Result<()> {
        match self {
            ChgV::Raw(v) => v.rollback(),
            ChgV::Cmp(v) => v.rollback(),
        }
    }
}

struct ChgFix {
    _sc: Scratch,
    _db: Database,
    v: ChgV,
    at1: Obs,
    pre: Obs,
    file: std::path::PathBuf,
}

fn build_change(kind: &str) -> Result<ChgFix, String> {
    let sc = Scratch::new("codec-chg");
    let e = |e: vecdb::Error| format!("{e:?}");
    let db = Database::open(sc.path()).map_err(|x| format!("{x:?}"))?;
    let o: ImportOptions = (&db, "v", Version::new(1)).into();
    let o = o.with_saved_stamped_changes(2);
    let (v, at1) = match kind {
        "raw" => {
            let mut v: BytesVec<usize, u32> = BytesVec::import_with(o).map_err(e)?;
            for x in [10u32, 11, 12, 13, 14] {
                v.push(x);
            }
            // a hole committed at stamp 1 so that prev_holes is non-empty in the record for stamp 2
            v.delete_at(3);
            v.stamped_write_with_changes(Stamp::new(1)).map_err(e)?;
            let v = ChgV::Raw(v);
            let at1 = v.obs().ok_or("obs panicked")?;
            let ChgV::Raw(mut v) = v else { unreachable!() };
            v.update_at(1, 77).map_err(e)?;
            v.delete_at(2);
            v.truncate_if_needed_at(4).map_err(e)?;
            v.push(20);
            v.push(21);
            v.stamped_write_with_changes(Stamp::new(2)).map_err(e)?;
            (ChgV::Raw(v), at1)
        }
        "cmp" => {
            let mut v: PcoVec<usize, u32> = PcoVec::import_with(o).map_err(e)?;
            for x in [10u32, 11, 12, 13, 14] {
                v.push(x);
            }
            v.stamped_write_with_changes(Stamp::new(1)).map_err(e)?;
            let v = ChgV::Cmp(v);
            let at1 = v.obs().ok_or("obs panicked")?;
            let ChgV::Cmp(mut v) = v else { unreachable!() };
            v.truncate_if_needed_at(3).map_err(e)?;
            v.push(20);
            v.push(21);
            v.stamped_write_with_changes(Stamp::new(2)).map_err(e)?;
            (ChgV::Cmp(v), at1)
        }
        o => return Err(format!("change kind {o}")),
    };
    let pre = v.obs().ok_or("obs panicked")?;
    let file = db.path().join("changes").join(vec_region_name_with::<usize>("v")).join("2");
    if !file.is_file() {
        return Err(format!("change file {file:?} missing"));
    }
    Ok(ChgFix { _sc: sc, _db: db, v, at1, pre, file })
}

/// Field map of a change record: name -> (offset, value) for the u64 length fields; `ends` = end offset of every segment.
struct Layout2 {
    fields: BTreeMap<&'static str, (usize, u64)>,
    ends: Vec<usize>,
}

fn parse_record(b: &[u8], raw: bool) -> Result<Layout2, String> {
    let mut pos = 0usize;
    let mut ends = vec![];
    let mut fields = BTreeMap::new();
    let u64at = |pos: &mut usize, ends: &mut Vec<usize>| -> Result<(usize, u64), String> {
        if *pos + 8 > b.len() {
            return Err(format!("record too short at {pos}"));
        }
        let v = u64::from_le_bytes(b[*pos..*pos + 8].try_into().unwrap());
        let at = *pos;
        *pos += 8;
        ends.push(*pos);
        Ok((at, v))
    };
    let skip = |pos: &mut usize, ends: &mut Vec<usize>, n: u64| -> Result<(), String> {
        let n = usize::try_from(n).map_err(|_| "len")?;
        if *pos + n > b.len() {
            return Err(format!("record too short for {n} bytes at {pos}"));
        }
        *pos += n;
        ends.push(*pos);
        Ok(())
    };
    u64at(&mut pos, &mut ends)?; // stamp
    let f = u64at(&mut pos, &mut ends)?;
    fields.insert("prevStoredLen", f);
    let f = u64at(&mut pos, &mut ends)?;
    fields.insert("storedLen", f);
    let f = u64at(&mut pos, &mut ends)?;
    fields.insert("truncCount", f);
    skip(&mut pos, &mut ends, f.1 * 4)?;
    let f = u64at(&mut pos, &mut ends)?;
    fields.insert("prevPushedLen", f);
    skip(&mut pos, &mut ends, f.1 * 4)?;
    let f = u64at(&mut pos, &mut ends)?;
    fields.insert("pushedLen", f);
    skip(&mut pos, &mut ends, f.1 * 4)?;
    if raw {
        let f = u64at(&mut pos, &mut ends)?;
        fields.insert("modifiedLen", f);
        skip(&mut pos, &mut ends, f.1 * 8)?;
        skip(&mut pos, &mut ends, f.1 * 4)?;
        let f = u64at(&mut pos, &mut ends)?;
        fields.insert("prevHolesLen", f);
        skip(&mut pos, &mut ends, f.1 * 8)?;
    }
    if pos != b.len() {
        return Err(format!("record has {} trailing bytes", b.len() - pos));
    }
    Ok(Layout2 { fields, ends })
}

/// Child side of a change evaluation: fresh fixture, `bytes` as the change file for stamp 2, rollback(), observation.
fn change_job(kind: &str, bytes: &[u8], report: &mut dyn FnMut(Value)) {
    let mut fx = match guarded(|| build_change(kind)).0 {
        Ok(Ok(f)) => f,
        Ok(Err(e)) => return report(json!({"phase": "setup_failed", "detail": e})),
        Err(p) => return report(json!({"phase": "setup_failed", "detail": format!("panic: {p}")})),
    };
    std::fs::write(&fx.file, bytes).unwrap();
    report(json!({"phase": "fixture", "at1": fx.at1, "pre": fx.pre}));
    let (r, peak) = guarded(|| fx.v.rollback());
    report(json!({"phase": "rollback", "r": outcome(&r), "peak": peak}));
    report(json!({"phase": "obs", "after": fx.v.obs()}));
}

/// Parent side of a change evaluation: judges what the child reported.
fn change_judge(s: &mut Sum, tag: &str, case: &Value, bytes: &[u8], expect: &str, (lines, sig): &JobResult) {
    s.eval(tag);
    let sig = *sig;
    if let Some(f) = lines.iter().find(|l| l["phase"] == "setup_failed") {
        return s.violate("change_setup", case, "could not build the change fixture", f["detail"].to_string());
    }
    let Some(fxl) = lines.iter().find(|l| l["phase"] == "fixture") else {
        return s.violate("change_setup", case, "process died while building the change fixture", format!("signal {sig:?}"));
    };
    let (at1, pre) = (fxl["at1"].clone(), fxl["pre"].clone());
    let Some(rb) = lines.iter().find(|l| l["phase"] == "rollback") else {
        return s.violate("change_crash", case, "process died (memory fault / abort) inside rollback()", format!("signal {sig:?}"));
    };
    let peak = rb["peak"].as_u64().unwrap() as usize;
    s.peak(tag, peak);
    if peak > (4 * bytes.len()).max(4096) {
        s.violate("change_alloc", case, "rollback allocated beyond the input size", format!("largest allocation {peak} bytes for a {}-byte record", bytes.len()));
    }
    let r = rb["r"].as_str().unwrap();
    let after = match lines.iter().find(|l| l["phase"] == "obs") {
        Some(o) => o["after"].clone(),
        None => {
            let what = if r == "ok" { "corrupted record applied: reading the vector afterwards kills the process (memory fault)" } else { "reading the vector after a failed rollback kills the process" };
            return s.violate("change_crash", case, what, format!("rollback -> {r}; then signal {sig:?} while reading (collect / holes / stamp / len)"));
        }
    };
    if let Some(p) = r.strip_prefix("panic:") {
        s.violate("change_panic", case, "rollback panicked on a change record", p.into());
    } else if r == "ok" {
        if after == at1 {
            if expect != "ok" {
                s.benign += 1;
                if s.benign_examples.len() < 6 {
                    s.benign_examples.push(case.clone());
                }
            }
        } else if expect == "ok" {
            s.violate("change_roundtrip", case, "rollback of an intact record does not restore the stamp-1 state", format!("got {after}, want {at1}"));
        } else {
            s.violate("change_corrupt_applied", case, "corrupted record applied", format!("rollback Ok; state {after} (null = reading panicked), stamp-1 state {at1}"));
        }
    } else if expect == "ok" {
        s.violate("change_rejects_valid", case, "rollback refused an intact record", r.into());
    } else if after != pre {
        s.violate("change_err_changed_state", case, "rollback returned Err but the vector changed", format!("{r}; state {after}, before {pre}"));
    }
}

fn change_case(s: &mut Sum, jobs: &mut Vec<Job>, case: &Value, expect: &str, sweeps: &mut BTreeSet<String>) -> bool {
    let kind = case["kind"].as_str().unwrap();
    if expect == "n/a" {
        return false;
    }
    // pristine record of a fixture
    let rec = match guarded(|| build_change(kind).map(|f| std::fs::read(&f.file).unwrap())).0 {
        Ok(Ok(b)) => b,
        o => {
            s.violate("change_setup", case, "could not build the change fixture", format!("{o:?}"));
            return true;
        }
    };
    let lay = match parse_record(&rec, kind == "raw") {
        Ok(l) => l,
        Err(e) => {
            s.violate("change_layout", case, "change record does not follow the documented layout", e);
            return true;
        }
    };
    s.fixtures.entry(format!("change_{kind}")).or_insert_with(|| {
        json!({"len": rec.len(), "fields": lay.fields.iter().map(|(k, (o, v))| (k.to_string(), json!({"off": o, "val": v}))).collect::<BTreeMap<_, _>>(), "segment_ends": lay.ends})
    });
    if sweeps.insert(kind.to_string()) {
        for cut in 0..rec.len() {
            let c = json!({"k": "change", "kind": kind, "byte_cut": cut});
            jobs.push(Job::Change { tag: "change_bytecut", case: c, kind: kind.to_string(), bytes: rec[..cut].to_vec(), expect: "err".into() });
        }
    }
    let cut = case["cut"].as_i64().unwrap();
    if cut >= 0 {
        let k = cut as usize;
        if k >= lay.ends.len() {
            return false;
        }
        let at = if k == 0 { 0 } else { lay.ends[k - 1] };
        if at >= rec.len() {
            return false;
        }
        jobs.push(Job::Change { tag: "change", case: case.clone(), kind: kind.to_string(), bytes: rec[..at].to_vec(), expect: expect.to_string() });
        return true;
    }
    let class = case["class"].as_str().unwrap();
    let field = case["field"].as_str().unwrap();
    let mut bytes = rec.clone();
    if class != "exact" {
        let Some(&(off, v)) = lay.fields.get(field) else { return false };
        let nv = match class {
            "zero" => 0,
            "minus1" => v.wrapping_sub(1),
            "plus1" => v.wrapping_add(1),
            "huge61" => 1 << 61,
            "b63" => 1 << 63,
            "max" => u64::MAX,
            "fit4" => u64::MAX / 4,
            "fit8" => u64::MAX / 8,
            o => panic!("class {o}"),
        };
        if nv == v {
            return false;
        }
        bytes[off..off + 8].copy_from_slice(&nv.to_le_bytes());
    }
    jobs.push(Job::Change { tag: "change", case: case.clone(), kind: kind.to_string(), bytes, expect: expect.to_string() });
    true
}

// ---------------------------------------------------------------------------------------------------------------------
// value encodings
// ---------------------------------------------------------------------------------------------------------------------
#[derive(vecdb::Bytes, Debug, PartialEq, Clone, Copy)]
struct Wrap(u64);
#[derive(vecdb::Bytes, Debug, PartialEq, Clone, Copy)]
struct WrapG<T>(T);

fn value_rt<T: Bytes>(s: &mut Sum, ty: &str, v: &T, le: &[u8], same: impl Fn(&T, &T) -> bool) {
    let case = json!({"k": "value", "type": ty, "bytes": le});
    s.eval("value");
    let (r, peak) = guarded(|| {
        let enc = v.to_bytes();
        let dec = T::from_bytes(enc.as_ref());
        (enc.as_ref().to_vec(), dec)
    });
    s.peak("value", peak);
    match r {
        Err(p) => return s.violate("value_panic", &case, "to_bytes/from_bytes panicked on a valid value", p),
        Ok((enc, _)) if enc != le => s.violate("value_encoding", &case, "to_bytes is not the little-endian encoding", format!("{enc:?}")),
        Ok((_, Ok(d))) if same(&d, v) => {}
        Ok((_, Ok(_))) => s.violate("value_roundtrip", &case, "from_bytes(to_bytes(v)) != v", String::new()),
        Ok((_, Err(e))) => s.violate("value_roundtrip", &case, "from_bytes refused to_bytes(v)", format!("{e:?}")),
    }
    // truncated input: Err, never a panic; over-long input: Err or the same value, never a panic
    for n in 0..le.len() {
        s.eval("value_short");
        match guarded(|| T::from_bytes(&le[..n]).is_ok()).0 {
            Err(p) => s.violate("value_panic", &case, "from_bytes panicked on a truncated slice", format!("{n} bytes: {p}")),
            Ok(true) => s.violate("value_accepts_short", &case, "from_bytes accepted a truncated slice", format!("{n} of {} bytes", le.len())),
            Ok(false) => {}
        }
    }
    s.eval("value_long");
    let mut long = le.to_vec();
    long.push(0x5A);
    match guarded(|| T::from_bytes(&long)).0 {
        Err(p) => s.violate("value_panic", &case, "from_bytes panicked on an over-long slice", p),
        Ok(Ok(d)) if !same(&d, v) => s.violate("value_long", &case, "from_bytes of an over-long slice yields another value", String::new()),
        _ => {}
    }
}

fn value_checks(s: &mut Sum) {
    macro_rules! ints {
        ($($t:ty),*) => {$(
            for v in [0 as $t, 1 as $t, <$t>::MAX, <$t>::MIN, <$t>::MAX - 1, <$t>::MIN + 1, (<$t>::MAX / 3) as $t] {
                value_rt::<$t>(s, stringify!($t), &v, &v.to_le_bytes(), |a, b| a == b);
            }
        )*};
    }
    ints!(u8, u16, u32, u64, u128, usize, i8, i16, i32, i64, i128, isize);
    for bits in [0u32, 0x8000_0000, 0x3f80_0000, 0x7f7f_ffff, 0xff7f_ffff, 0x0080_0000, 0x0000_0001, 0x7f80_0000, 0xff80_0000, 0x7fc0_0000, 0x7fa0_0001, 0xffff_ffff, 0x7f80_0001] {
        let v = f32::from_bits(bits);
        value_rt::<f32>(s, "f32", &v, &bits.to_le_bytes(), |a, b| a.to_bits() == b.to_bits());
    }
    for bits in [0u64, 1 << 63, 0x3ff0 << 48, 0x7fef_ffff_ffff_ffff, 0xffef_ffff_ffff_ffff, 0x0010 << 48, 1, 0x7ff0 << 48, 0xfff0 << 48, 0x7ff8 << 48, 0x7ff4_0000_0000_0001, u64::MAX, 0x7ff0_0000_0000_0001] {
        let v = f64::from_bits(bits);
        value_rt::<f64>(s, "f64", &v, &bits.to_le_bytes(), |a, b| a.to_bits() == b.to_bits());
    }
    macro_rules! arrays {
        ($($n:expr),*) => {$(
            for pat in 0..3u8 {
                let mut a = [0u8; $n];
                for (i, x) in a.iter_mut().enumerate() {
                    *x = match pat { 0 => 0, 1 => 0xFF, _ => (i as u8).wrapping_mul(37).wrapping_add(1) };
                }
                value_rt::<[u8; $n]>(s, concat!("[u8;", stringify!($n), "]"), &a, &a, |x, y| x == y);
            }
        )*};
    }
    arrays!(1, 2, 8, 20, 32, 33, 64, 65);
    for v in [0u64, 1, u64::MAX, u64::MAX - 1, 1 << 63] {
        value_rt::<Wrap>(s, "derive Wrap(u64)", &Wrap(v), &v.to_le_bytes(), |a, b| a == b);
        value_rt::<WrapG<u64>>(s, "derive WrapG<u64>", &WrapG(v), &v.to_le_bytes(), |a, b| a == b);
        value_rt::<Stamp>(s, "Stamp", &Stamp::new(v), &v.to_le_bytes(), |a, b| a == b);
    }
    for v in [i16::MIN, -1, 0, 1, i16::MAX] {
        value_rt::<WrapG<i16>>(s, "derive WrapG<i16>", &WrapG(v), &v.to_le_bytes(), |a, b| a == b);
    }
    for v in [0u32, 1, 2, u32::MAX, u32::MAX - 1] {
        value_rt::<Version>(s, "Version", &Version::new(v), &v.to_le_bytes(), |a, b| a == b);
    }
    // format byte: exactly the five defined codes decode, and to themselves
    for b in 0..=255u8 {
        s.eval("value_format");
        let case = json!({"k": "value", "type": "Format", "byte": b});
        match guarded(|| Format::from_bytes(&[b]).map(|f| f.to_bytes())).0 {
            Err(p) => s.violate("value_panic", &case, "Format::from_bytes panicked", p),
            Ok(Ok(back)) => {
                if back != [b] || ![0u8, 1, 64, 65, 66].contains(&b) {
                    s.violate("value_format", &case, "undefined format code accepted or re-encoded differently", format!("{back:?}"));
                }
            }
            Ok(Err(_)) => {
                if [0u8, 1, 64, 65, 66].contains(&b) {
                    s.violate("value_format", &case, "defined format code refused", String::new());
                }
            }
        }
    }
    for n in [0usize, 2] {
        s.eval("value_format");
        let case = json!({"k": "value", "type": "Format", "len": n});
        match guarded(|| Format::from_bytes(&vec![0u8; n]).is_ok()).0 {
            Err(p) => s.violate("value_panic", &case, "Format::from_bytes panicked on a wrong-length slice", p),
            Ok(true) => s.violate("value_accepts_short", &case, "Format::from_bytes accepted a wrong-length slice", String::new()),
            Ok(false) => {}
        }
    }
}

// ---------------------------------------------------------------------------------------------------------------------
/// Encode side of the metadata slot: a region created under a name of `bytes` bytes made of `charw`-byte characters.
/// expect "ok": creation succeeds and, after a write, a flush and a reopen, the region is there under exactly that name with
/// its bytes; expect "refused": creation is refused (an error or the documented assertion), and nothing is left behind.
fn name_case(s: &mut Sum, case: &Value, expect: &str) {
    let bytes = case["bytes"].as_u64().unwrap() as usize;
    let charw = case["charw"].as_u64().unwrap() as usize;
    let ch = match charw { 1 => "a", 2 => "\u{e9}", 3 => "\u{20ac}", _ => "\u{1F600}" };
    let mut id = ch.repeat(bytes / charw);
    while id.len() < bytes { id.push('a'); }
    *s.by_kind.entry("name".into()).or_default() += 1;
    s.evaluations += 1;
    let scratch = Scratch::new("name");
    let created = catch_unwind(AssertUnwindSafe(|| -> Result<bool, String> {
        let db = rawdb::Database::open(scratch.path()).map_err(|e| format!("{e:?}"))?;
        let r = db.create_region_if_needed(&id).map_err(|e| format!("{e:?}"))?;
        r.write(b"payload").map_err(|e| format!("{e:?}"))?;
        db.flush().map_err(|e| format!("{e:?}"))?;
        Ok(true)
    }));
    let accepted = matches!(created, Ok(Ok(true)));
    if expect == "ok" && !accepted {
        s.violate("name_refused", case, "a valid region name was refused", format!("{:?}", created.as_ref().map_err(|_| "panic")));
        return;
    }
    // whatever happened at creation, the files must reopen, and an accepted name must round-trip
    let reopened = catch_unwind(AssertUnwindSafe(|| -> Result<Option<Vec<u8>>, String> {
        let db = rawdb::Database::open(scratch.path()).map_err(|e| format!("{e:?}"))?;
        Ok(db.get_region(&id).map(|r| r.create_reader().read_all().to_vec()))
    }));
    match reopened {
        Err(_) => s.violate("name_reopen_panic", case, "reopening after creating a region panicked", String::new()),
        Ok(Err(e)) => s.violate("name_reopen_err", case, "reopening after creating a region failed", e),
        Ok(Ok(got)) => {
            if accepted && got.as_deref() != Some(b"payload".as_slice()) {
                s.violate("name_lost", case, "a region whose creation, write and flush succeeded is not there (or differs) after reopen",
                          format!("name of {} bytes ({} chars); found {:?}", id.len(), id.chars().count(), got.map(|g| g.len())));
            }
        }
    }
}

pub fn main(args: &[String]) -> i32 {
    let f = parse_flags(args);
    let input = f.get("in").expect("--in");
    let keep_going = f.contains_key("keep-going");
    let trace = f.contains_key("trace");
    let mut s = Sum { max_violations: f.get("max-violations").map(|x| x.parse().expect("--max-violations")).unwrap_or(10), ..Default::default() };
    if let Some(k) = f.get("known") {
        for item in k.split(',').map(str::trim).filter(|x| !x.is_empty()) {
            match item.split_once('=') {
                Some((id, n)) => s.known_ids.insert(id.to_string(), Some(n.parse().expect("--known id=count"))),
                None => s.known_ids.insert(item.to_string(), None),
            };
        }
    }
    let t0 = std::time::Instant::now();
    let rd = std::io::BufReader::new(std::fs::File::open(Path::new(input)).expect("open input"));
    let mut env = SlotEnv::new();
    let mut sweeps = BTreeSet::new();
    let mut jobs: Vec<Job> = vec![];
    let stop = |s: &Sum| !keep_going && s.violations.len() >= s.max_violations;

    value_checks(&mut s);
    slot_roundtrip(&mut s);
    for l in rd.lines() {
        let l = l.unwrap();
        if l.trim().is_empty() {
            continue;
        }
        if stop(&s) {
            break;
        }
        let o: Value = serde_json::from_str(&l).unwrap();
        let case = &o["case"];
        let expect = o["expect"].as_str().unwrap();
        let open_safe = o["open_safe"].as_bool().unwrap_or(true);
        s.cases += 1;
        if trace {
            eprintln!("{l}");
        }
        let executed = match case["k"].as_str().unwrap() {
            "slot" => {
                slot_case(&mut s, &mut env, case, expect, open_safe);
                true
            }
            "header" => {
                header_case(&mut s, case, expect);
                true
            }
            "page" => {
                page_case(&mut s, &mut jobs, case, expect);
                true
            }
            "change" => change_case(&mut s, &mut jobs, case, expect, &mut sweeps),
            "name" => {
                name_case(&mut s, case, expect);
                true
            }
            other => panic!("case kind {other}"),
        };
        if executed {
            s.distinct.insert(fnv(&case.to_string()));
        } else {
            s.skipped += 1;
        }
    }
    drop(env);
    // page and change evaluations run last, inside child processes
    if !stop(&s) {
        let results = run_jobs(&jobs);
        for (job, res) in jobs.iter().zip(&results) {
            if stop(&s) {
                break;
            }
            match job {
                Job::Page { case, expect, size, .. } => page_judge(&mut s, case, expect, size, res),
                Job::Change { tag, case, bytes, expect, .. } => change_judge(&mut s, tag, case, bytes, expect, res),
            }
        }
    }
    // a known class given as id=count must occur exactly that often (only meaningful on a complete run)
    if !stop(&s) {
        for (id, want) in s.known_ids.clone() {
            let got = s.known.get(&id).map(|e| e.0).unwrap_or(0);
            if let Some(w) = want.filter(|w| *w != got) {
                s.violate("known_count", &json!({"known": id}), "a tolerated violation class occurs a different number of times", format!("expected {w}, observed {got}"));
            }
        }
    }
    let out = json!({
        "cases": s.cases, "skipped": s.skipped, "evaluations": s.evaluations, "distinct_nontrivial": s.distinct.len(),
        "by_kind": s.by_kind, "kind_notes": s.kind_notes, "kind_note_examples": s.kind_note_examples,
        "open_wild": {"panic": s.wild_panic, "err": s.wild_err, "ok": s.wild_ok, "ok_but_good_regions_damaged": s.wild_ok_good_damaged,
            "ok_but_reading_it_panics": s.wild_ok_self_read_panic, "by_extent_class": s.wild_table, "examples": s.wild_examples},
        "benign": s.benign, "benign_examples": s.benign_examples,
        "peak_alloc": s.peak_alloc, "fixtures": s.fixtures,
        "known": s.known.iter().map(|(k, (c, v))| json!({"id": k, "count": c, "example": v})).collect::<Vec<_>>(),
        "violations_total": s.violations_total, "violation_classes": s.classes, "class_examples": s.class_examples,
        "seconds": (t0.elapsed().as_millis() as f64) / 1000.0,
        "violations": s.violations,
    });
    writeln!(std::io::stdout(), "{}", out).unwrap();
    if s.violations_total == 0 { 0 } else { 1 }
}
